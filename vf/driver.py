"""
Schedules CrossHair conditions over the cores, replays counterexamples in a CrossHair-free
interpreter, matches known findings, writes evidence and decides the exit code.

exit codes: 0 held on everything explored (KNOWN-FINDING lines allowed)
            1 VIOLATION (replayed on the real code in a fresh /venv/bin/python)
            2 inconclusive / harness error (timeout, unknown, non-reproducing cex, vacuity)
"""
from __future__ import annotations

import concurrent.futures as cf
import hashlib
import json
import os
import subprocess
import sys
import time
from dataclasses import dataclass, field
from typing import Dict, List, Optional

ROOT = os.path.dirname(os.path.dirname(os.path.abspath(__file__)))  # /verif (or a scratch copy of it when testing seeded changes)
VENV_PY = "/verif/.venv/bin/python"
PLAIN_PY = "/venv/bin/python"
NCPU = int(os.environ.get("VF_JOBS", str(os.cpu_count() or 4)))


@dataclass
class Cond:
    module: str
    function: str
    case: int = 0
    timeout: float = 120.0
    float_model: str = "real"
    env: Dict[str, str] = field(default_factory=dict)
    expect: str = "confirm"  # confirm | refute (reachability twin: must be refuted)
    label: str = ""
    engine: str = "crosshair"  # crosshair | smt (module:function run directly, returns result dict)
    weight: float = 1.0  # scheduling hint: expected relative cost (heaviest first)

    @property
    def name(self):
        return self.label or f"{self.module.split('.')[-1]}.{self.function}[{self.case}]"


def _blank(error, exclusions, wall=0.0):
    return {"status": "UNKNOWN", "exhausted": False, "paths": 0, "confirmed_paths": 0, "cpu_s": 0.0,
            "wall_s": wall, "messages": [], "cex": None, "notes": [], "functions": [],
            "error": error, "exclusions": exclusions}


def _run_batch(conds: List[Cond], exclusions: List[str]) -> List[dict]:
    """run several conditions of the same (module, function, env, float model) in one worker process"""
    c = conds[0]
    env = dict(os.environ)
    env.update(c.env)
    env["PYTHONPATH"] = (os.environ["VF_REPO"] + ":" if os.environ.get("VF_REPO") else "") + ROOT
    env["PYTHONHASHSEED"] = env.get("PYTHONHASHSEED", "0")
    cases = ",".join(str(x.case) for x in conds)
    tmo = max(x.timeout for x in conds)
    if c.engine in ("smt", "direct"):
        cmd = [VENV_PY, "-W", "ignore", "-m", "vf.smtworker", c.module, c.function, cases, str(tmo)]
    else:
        cmd = [VENV_PY, "-W", "ignore", "-m", "vf.worker", c.module, c.function, cases, str(tmo), c.float_model]
        if exclusions:
            cmd.append(json.dumps(exclusions))
    t0 = time.time()
    out, err_tail, timed_out = "", "", False
    try:
        p = subprocess.run(cmd, env=env, cwd=ROOT, capture_output=True, text=True,
                           timeout=sum(x.timeout for x in conds) * 2 + 120 * len(conds))
        out = p.stdout
        err_tail = p.stderr[-1500:]
    except subprocess.TimeoutExpired as e:
        timed_out = True
        out = e.stdout.decode() if isinstance(e.stdout, bytes) else (e.stdout or "")
    by_case = {}
    for line in out.splitlines():
        if line.startswith("VFRESULT "):
            r = json.loads(line[len("VFRESULT "):])
            by_case[r["case"]] = r
    res = []
    for x in conds:
        r = by_case.get(x.case)
        if r is None:
            r = _blank("worker wall-clock timeout" if timed_out else "no VFRESULT line; stderr tail: " + err_tail,
                       exclusions, time.time() - t0)
        res.append(r)
    return res


def _run_worker(c: Cond, exclusions: List[str]) -> dict:
    return _run_batch([c], exclusions)[0]


def write_replay(prop: str, c: Cond, cex: dict) -> str:
    d = os.path.join(ROOT, "replays", prop)
    os.makedirs(d, exist_ok=True)
    payload = {
        "property": prop,
        "module": c.module,
        "function": c.function,
        "case": c.case,
        "env": c.env,
        "float_model": c.float_model,
        "args": cex["args"],
        "message": cex.get("message", ""),
    }
    blob = json.dumps(payload, sort_keys=True, default=repr)
    h = hashlib.sha1(blob.encode()).hexdigest()[:10]
    path = os.path.join(d, f"{c.module.split('.')[-1]}-{c.function}-{c.case}-{h}.json")
    with open(path, "w") as f:
        f.write(blob)
    return path


def run_replay(path: str) -> dict:
    """re-run the counterexample on the real code in a CrossHair-free interpreter"""
    env = dict(os.environ)
    env["PYTHONPATH"] = (os.environ["VF_REPO"] + ":" if os.environ.get("VF_REPO") else "") + ROOT
    env["VF_MODE"] = "concrete"
    try:
        p = subprocess.run([PLAIN_PY, "-W", "ignore", "-m", "vf.replay", path], env=env, cwd=ROOT,
                           capture_output=True, text=True, timeout=300)
    except subprocess.TimeoutExpired:
        return {"verdict": "error", "detail": "replay timeout"}
    for line in p.stdout.splitlines():
        if line.startswith("VFREPLAY "):
            return json.loads(line[len("VFREPLAY "):])
    return {"verdict": "error", "detail": (p.stdout + p.stderr)[-1500:]}


def load_findings() -> List[dict]:
    p = os.path.join(ROOT, "known_findings.json")
    if not os.path.exists(p):
        return []
    with open(p) as f:
        return json.load(f).get("findings", [])


def match_finding(findings, prop, c: Cond, args: dict) -> Optional[dict]:
    for fd in findings:
        if fd.get("status") != "open" or fd.get("property") != prop:
            continue
        if fd.get("harness") != f"{c.module}:{c.function}":
            continue
        scope = dict(args)
        scope["CASE"] = c.case
        scope.update({k: v for k, v in c.env.items()})
        try:
            if eval(fd["signature"], {"__builtins__": {}}, scope):
                return fd
        except Exception:
            continue
    return None


def decide_condition(prop: str, c: Cond, findings: List[dict], log, first: Optional[dict] = None) -> dict:
    """run one condition to a verdict (re-running with exclusions after known findings)"""
    exclusions: List[str] = []
    known_hits = []
    rounds = []
    nonrepro = 0
    while True:
        if first is not None:
            r, first = first, None
        else:
            r = _run_worker(c, exclusions)
        rounds.append(r)
        verdict = None
        if r.get("error"):
            verdict = ("inconclusive", "worker error: " + str(r["error"])[:300])
        elif c.expect == "refute":
            if r["status"] == "REFUTED" and r.get("cex") is not None:
                verdict = ("reachable", "")
            elif any(m["state"] == "PRE_UNSAT" for m in r["messages"]):
                verdict = ("vacuous", "precondition unsatisfiable")
            else:
                verdict = ("vacuous", "reachability twin was not refuted")
        elif any(m["state"] == "PRE_UNSAT" for m in r["messages"]):
            verdict = ("vacuous", "unable to meet precondition")
        elif r["status"] == "REFUTED":
            cex = r.get("cex")
            if cex is None:
                verdict = ("inconclusive", "refuted without parsable counterexample: " + json.dumps(r["messages"])[:400])
            else:
                path = write_replay(prop, c, cex)
                rep = run_replay(path)
                if rep.get("verdict") == "violates":
                    fd = match_finding(findings, prop, c, cex["args"])
                    if fd is not None and len(exclusions) < 8:
                        known_hits.append({"finding": fd, "replay": path, "args": cex["args"]})
                        exclusions.append(fd["signature"])
                        continue  # explore the rest of the space without the known region
                    verdict = ("violation", path)
                elif rep.get("verdict") == "holds":
                    # a counterexample of the real-arithmetic float model that sits exactly on an IEEE rounding boundary
                    # does not reproduce; ask the solver for another one away from these float values (bounded retries)
                    near = [f"abs({k} - ({v!r})) <= {max(1e-3, 1e-3 * abs(v))!r}" for k, v in cex["args"].items()
                            if isinstance(v, float) and v == v and abs(v) != float("inf") and v != 0.0]
                    if near and nonrepro < 4:
                        nonrepro += 1
                        exclusions.extend(near)
                        continue
                    verdict = ("inconclusive", f"counterexample did not reproduce in replay ({path})")
                else:
                    verdict = ("inconclusive", f"replay error ({path}): {rep.get('detail', '')[:300]}")
        elif not r["exhausted"]:
            verdict = ("inconclusive", f"search not exhausted within {c.timeout}s ({r['paths']} paths)")
        elif r.get("unexplored", 0) > 0 or r.get("unknown_sat", 0) > 0:
            verdict = ("inconclusive", f"{r.get('unexplored', 0)} path(s) cut short (z3 unknown on {r.get('unknown_sat', 0)} queries / path timeout)")
        elif r["status"] == "CONFIRMED":
            verdict = ("holds-all-paths", "")
        elif r["status"] == "UNKNOWN" and c.float_model == "real":
            verdict = ("holds-all-paths-real-arith", "")
        else:
            verdict = ("inconclusive", "status " + r["status"])
        break
    total = {
        "name": c.name,
        "module": c.module,
        "function": c.function,
        "case": c.case,
        "expect": c.expect,
        "float_model": c.float_model,
        "timeout_s": c.timeout,
        "verdict": verdict[0],
        "detail": verdict[1],
        "status": rounds[-1]["status"],
        "exhausted": rounds[-1]["exhausted"],
        "paths": sum(x["paths"] for x in rounds),
        "confirmed_paths": sum(x["confirmed_paths"] for x in rounds),
        "cpu_s": round(sum(x["cpu_s"] for x in rounds), 2),
        "wall_s": round(sum(x["wall_s"] for x in rounds), 2),
        "notes": sorted({tuple(n) for x in rounds for n in x["notes"]}, key=repr),
        "functions": sorted({f for x in rounds for f in x["functions"]}),
        "known_hits": known_hits,
        "rounds": len(rounds),
        "nonreproducing_cex_retries": nonrepro,
        "unexplored": sum(x.get("unexplored", 0) for x in rounds),
        "smt": rounds[-1].get("smt"),
    }
    return total


def _batches(conds: List[Cond]) -> List[List[int]]:
    """group light conditions of the same harness into one process (start-up dominates small searches)"""
    groups: Dict[tuple, List[int]] = {}
    for i, c in enumerate(conds):
        key = (c.module, c.function, c.float_model, c.engine, c.expect, tuple(sorted(c.env.items())))
        groups.setdefault(key, []).append(i)
    total = sum(c.weight for c in conds) or 1.0
    cap = max(max(c.weight for c in conds), total / (NCPU * 3.0))
    out = []
    for key, idxs in groups.items():
        idxs = sorted(idxs, key=lambda i: -conds[i].weight)
        cur, w = [], 0.0
        for i in idxs:
            if cur and w + conds[i].weight > cap:
                out.append(cur)
                cur, w = [], 0.0
            cur.append(i)
            w += conds[i].weight
        if cur:
            out.append(cur)
    out.sort(key=lambda b: -sum(conds[i].weight for i in b))
    return out


def _decide_batch(prop, conds, idxs, findings, log):
    firsts = _run_batch([conds[i] for i in idxs], [])
    return [(i, decide_condition(prop, conds[i], findings, log, first=r)) for i, r in zip(idxs, firsts)]


def run_all(prop: str, conds: List[Cond], log=print) -> List[dict]:
    findings = load_findings()
    results = [None] * len(conds)
    batches = _batches(conds)
    done = 0
    with cf.ThreadPoolExecutor(max_workers=NCPU) as ex:
        futs = {ex.submit(_decide_batch, prop, conds, b, findings, log): b for b in batches}
        for fu in cf.as_completed(futs):
            b = futs[fu]
            try:
                pairs = fu.result()
            except Exception as e:  # harness bug
                pairs = [(i, {"name": conds[i].name, "verdict": "inconclusive", "detail": "driver exception: %r" % e,
                              "paths": 0, "confirmed_paths": 0, "cpu_s": 0, "wall_s": 0, "notes": [], "functions": [],
                              "known_hits": [], "exhausted": False, "status": "UNKNOWN", "expect": conds[i].expect,
                              "module": conds[i].module, "function": conds[i].function, "case": conds[i].case,
                              "float_model": conds[i].float_model, "timeout_s": conds[i].timeout, "rounds": 0}) for i in b]
            for i, r in pairs:
                results[i] = r
                done += 1
                if r["verdict"] not in ("holds-all-paths", "holds-all-paths-real-arith", "reachable") or os.environ.get("VF_VERBOSE"):
                    log(f"  [{done}/{len(conds)}] {r['name']}: {r['verdict']} {r['detail']} paths={r['paths']} cpu={r['cpu_s']}s")
    return results
