"""
C01 site inventory: an AST pass over /repo/nrel/hive listing every iteration whose iterable is (syntactically) an
unordered container: .keys() / .values() / .items() of a mapping, set(...) / frozenset(...) literals and calls,
h3.k_ring / h3_to_children results, and the known set-typed fields (fleet_ids, on_shift_access_chargers, memberships).
Each site is classified:
   sorted        the iterable is wrapped in sorted(...) / DictOps.iterate_* / get_*_ids
   insensitive   the consumer is order-insensitive by form (builds a set/dict/Map/Counter, sum, any, all, len, min/max with total key)
   covered       an order-sensitivity harness exercises it (listed in COVERED)
   exempt        only affects printing order of set-valued fields / order of reports within one step (allowed by C01)
   uncovered     none of the above: reported in evidence (never as a violation) so the list cannot silently rot
"""
import ast
import os

ROOT = os.environ.get("VF_REPO", "/repo") + "/nrel/hive"
SET_FIELDS = ("fleet_ids", "on_shift_access_chargers", "memberships")
COVERED = {
    "dispatcher/instruction_generator/assignment_ops.py:nearest_shortest_queue_ranking": "H01a",
    "dispatcher/instruction_generator/assignment_ops.py:shortest_time_to_charge_ranking": "H01b",
    "util/h3_ops.py:nearest_entity": "H01c",
    "util/h3_ops.py:_search": "H01c",
    "util/h3_ops.py:get_entities_at_cell": "H01c",
    "state/simulation_state/update/step_simulation.py:update_instruction_generator": "H01g",
    "dispatcher/instruction_generator/dispatcher.py:generate_instructions": "H01e",
    "state/simulation_state/update/charging_price_update.py:_map_to_station_ids": "H01d",
    "state/simulation_state/update/charging_price_update.py:update": "H01d / H11-price",
}
EXEMPT = {
    "model/membership.py:__str__": "printing order of a set-valued field",
    "model/membership.py:as_tuple": "printing order of a set-valued field",
    "model/membership.py:to_json": "printing order of a set-valued field",
    "model/membership.py:add_membership": "rebuilds a frozenset",
    "reporting/vehicle_event_ops.py:_to_reports": "order of reports within one step",
    "reporting/vehicle_event_ops.py:construct_station_load_events": "order of reports within one step",
    "dispatcher/instruction/instruction_ops.py:trip_plan_all_requests_allow_pooling": "order only shows in an error message",
}
MANUAL = {
    "reporting/vehicle_event_ops.py:vehicle_move_event": "insensitive:single energy type (more than one raises NotImplementedError)",
    "util/dict_ops.py:merge_dicts": "insensitive:builds a Map (distinct keys)",
    "state/simulation_state/update/step_simulation_ops.py:perform_vehicle_state_updates": "sorted:partitioned then sorted by (enqueue_time, id) / id (C18 harness)",
    "state/simulation_state/update/charging_price_update.py:build": "insensitive:one default row per distinct charger id, accumulated into a Map",
}
SKIP_DIRS = ("resources", "reporting/handler", "initialization", "app", "config", "util/fs.py")
INSENSITIVE_CONSUMERS = ("set", "frozenset", "dict", "Map", "sum", "any", "all", "len", "Counter", "sorted")  # min/max are order-sensitive on ties


def _unordered(node) -> str:
    """why `node` (an expression) is an unordered iterable, or ''"""
    if isinstance(node, ast.Call):
        f = node.func
        if isinstance(f, ast.Attribute) and f.attr in ("keys", "values", "items") and not node.args:
            return "." + f.attr + "()"
        if isinstance(f, ast.Name) and f.id in ("set", "frozenset"):
            return f.id + "(...)"
        if isinstance(f, ast.Attribute) and f.attr in ("k_ring", "h3_to_children", "union", "difference", "intersection"):
            return "." + f.attr + "(...)"
    if isinstance(node, ast.Attribute) and node.attr in SET_FIELDS:
        return "." + node.attr
    if isinstance(node, ast.Name) and node.id in ("fleet_ids", "ring", "station_ids_to_update", "req_ids_unique", "unreported_station_ids"):
        return "name " + node.id
    if isinstance(node, (ast.Set, ast.SetComp)):
        return "set display"
    return ""


class V(ast.NodeVisitor):
    def __init__(self, rel):
        self.rel = rel
        self.fn = ["<module>"]
        self.parents = []
        self.sites = []

    def visit_FunctionDef(self, node):
        self.fn.append(node.name)
        self.generic_visit(node)
        self.fn.pop()

    visit_AsyncFunctionDef = visit_FunctionDef

    def generic_visit(self, node):
        self.parents.append(node)
        super().generic_visit(node)
        self.parents.pop()

    def _record(self, it, how, node):
        why = _unordered(it)
        if not why:
            return
        consumer = ""
        for p in reversed(self.parents[-4:]):
            if isinstance(p, ast.Call):
                f = p.func
                name = f.id if isinstance(f, ast.Name) else (f.attr if isinstance(f, ast.Attribute) else "")
                if name:
                    consumer = name
                    break
            if isinstance(p, (ast.DictComp, ast.SetComp)):
                consumer = "dict" if isinstance(p, ast.DictComp) else "set"
                break
        self.sites.append(dict(file=self.rel, function=self.fn[-1], line=node.lineno, iterable=ast.unparse(it)[:80], why=why, how=how, consumer=consumer))

    def visit_For(self, node):
        self._record(node.iter, "for", node)
        self.generic_visit(node)

    def visit_comprehension(self, node):
        self._record(node.iter, "comprehension", node.iter)
        self.generic_visit(node)

    def visit_Call(self, node):
        f = node.func
        name = f.id if isinstance(f, ast.Name) else (f.attr if isinstance(f, ast.Attribute) else "")
        if name in ("reduce", "map", "filter", "next", "tuple", "list", "zip", "enumerate"):
            for a in node.args:
                self._record(a, name + "()", node)
        self.generic_visit(node)


def scan():
    sites = []
    for dp, dn, fns in os.walk(ROOT):
        for fn in fns:
            if not fn.endswith(".py"):
                continue
            path = os.path.join(dp, fn)
            rel = os.path.relpath(path, ROOT)
            if any(rel.startswith(s) for s in SKIP_DIRS):
                continue
            try:
                tree = ast.parse(open(path).read())
            except SyntaxError:
                continue
            v = V(rel)
            v.visit(tree)
            sites += v.sites
    for s in sites:
        key = s["file"] + ":" + s["function"]
        if s["consumer"] in ("sorted",) or s["how"] == "sorted":
            s["class"] = "sorted"
        elif key in MANUAL:
            s["class"] = MANUAL[key]
        elif key in COVERED:
            s["class"] = "covered:" + COVERED[key]
        elif key in EXEMPT:
            s["class"] = "exempt:" + EXEMPT[key]
        elif s["consumer"] in INSENSITIVE_CONSUMERS:
            s["class"] = "insensitive:" + s["consumer"]
        else:
            s["class"] = "uncovered"
    return sites


def inventory(case, timeout):
    sites = scan()
    by = {}
    for s in sites:
        by.setdefault(s["class"].split(":")[0], []).append(s)
    notes = [["site", s["file"], s["function"], s["line"], s["class"]] for s in sites]
    unc = [f"{s['file']}:{s['line']} {s['function']}: {s['iterable']} ({s['why']}, via {s['how']}, consumer {s['consumer'] or '-'})" for s in by.get("uncovered", [])]
    return dict(
        status="CONFIRMED",
        exhausted=True,
        queries=len(sites),
        queries_unsat=len(sites) - len(unc),
        notes=notes[:300],
        messages=[{"state": "INFO", "message": "uncovered (listed, not a violation): " + "; ".join(unc)[:3000]}],
        smt={"kind": "ast-inventory", "sites": len(sites), "by_class": {k: len(v) for k, v in by.items()}, "uncovered": unc},
    )


if __name__ == "__main__":
    import json

    r = inventory(0, 0)
    print(json.dumps(r["smt"], indent=1))
