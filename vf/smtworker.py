"""
Worker for conditions that are not CrossHair analyses:
  engine "smt"    : module.function(case, timeout) builds a z3 encoding from the real source (vf.py2smt), discharges
                    the queries and returns a result dict
  (also used for the C01 site inventory, a pure AST pass)

usage: python -m vf.smtworker <module> <function> <case[,case...]> <timeout>
prints one "VFRESULT {json}" line per case, same keys as vf.worker.
"""
import importlib
import json
import os
import sys
import time
import traceback

os.environ["VF_MODE"] = "concrete"


def main():
    modname, fnname, cases, timeout = sys.argv[1:5]
    mod = importlib.import_module(modname)
    fn = getattr(mod, fnname)
    for case in cases.split(","):
        t0 = time.time()
        c0 = time.process_time()
        try:
            r = fn(int(case), float(timeout))
            err = None
        except BaseException as e:  # noqa
            r = {}
            err = "".join(traceback.format_exception(type(e), e, e.__traceback__))[-1500:]
        out = dict(
            module=modname,
            function=fnname,
            case=int(case),
            float_model="real",
            status=r.get("status", "UNKNOWN"),
            exhausted=bool(r.get("exhausted", False)),
            paths=int(r.get("queries", 0)),
            confirmed_paths=int(r.get("queries_unsat", 0)),
            cpu_s=round(time.process_time() - c0, 2),
            wall_s=round(time.time() - t0, 2),
            messages=r.get("messages", []),
            cex=r.get("cex"),
            notes=r.get("notes", []),
            functions=r.get("functions", []),
            error=err,
            exclusions=[],
            smt=r.get("smt"),
        )
        sys.stdout.write("\nVFRESULT " + json.dumps(out, default=str) + "\n")
        sys.stdout.flush()


if __name__ == "__main__":
    main()
