"""
py2smt: a small symbolic interpreter that reads a Python function's AST from the file in /repo at run time
and evaluates it over z3 terms (no path forking: control flow is merged with ite).

Supported subset (enough for hive's leaf arithmetic kernels):
  assignments, augmented assignments, tuple unpacking, if/elif/else, return (single exit or early returns merged),
  while loops unrolled to a stated bound WITH an unwinding obligation (the loop guard after the last unrolling is
  returned to the caller, who must prove it unsatisfiable: a too-small bound is reported, never silently truncated),
  + - * / unary -, comparisons, and/or/not, min/max/abs/float/int (int = floor for non-negative reals),
  attribute reads of declared records (dicts), names bound in the environment, calls to declared Python callbacks.

Python int/float -> z3 Int/Real terms or plain Python numbers (constants stay Python numbers and are coerced by z3
to exact rationals of their decimal repr).
"""
from __future__ import annotations

import ast
import inspect
import textwrap

import z3


class Unsupported(Exception):
    pass


class _Return(Exception):
    pass


def _is_z3(x):
    return isinstance(x, z3.ExprRef)


def _to_real(x):
    if _is_z3(x):
        return z3.ToReal(x) if x.sort() == z3.IntSort() else x
    return z3.RealVal(repr(float(x))) if isinstance(x, float) else z3.RealVal(x)


def ite(c, a, b):
    if not _is_z3(c):
        return a if c else b
    if isinstance(a, tuple) and isinstance(b, tuple):
        return tuple(ite(c, x, y) for x, y in zip(a, b))
    if a is b:
        return a
    if not _is_z3(a) and not _is_z3(b) and a == b:
        return a
    if isinstance(a, bool) or isinstance(b, bool) or (_is_z3(a) and z3.is_bool(a)) or (_is_z3(b) and z3.is_bool(b)):
        return z3.If(c, _b(a), _b(b))
    return z3.If(c, _to_real(a), _to_real(b))


def _b(x):
    if _is_z3(x):
        return x
    return z3.BoolVal(bool(x))


def smin(a, b):
    if not _is_z3(a) and not _is_z3(b):
        return min(a, b)
    return z3.If(_to_real(a) <= _to_real(b), _to_real(a), _to_real(b))


def smax(a, b):
    if not _is_z3(a) and not _is_z3(b):
        return max(a, b)
    return z3.If(_to_real(a) >= _to_real(b), _to_real(a), _to_real(b))


def interp_term(x, xs, ys):
    """numpy.interp semantics (clamped, piecewise linear) over a concrete table, as a z3 term in x"""
    x = _to_real(x)
    n = len(xs)
    t = z3.RealVal(repr(float(ys[n - 1])))
    for i in range(n - 2, -1, -1):
        x0, x1, y0, y1 = float(xs[i]), float(xs[i + 1]), float(ys[i]), float(ys[i + 1])
        if x1 == x0:
            seg = z3.RealVal(repr(y1))
        else:
            slope = z3.RealVal(repr(y1 - y0)) / z3.RealVal(repr(x1 - x0))
            seg = z3.RealVal(repr(y0)) + slope * (x - z3.RealVal(repr(x0)))
        t = z3.If(x <= z3.RealVal(repr(x1)), seg, t)
    t = z3.If(x <= z3.RealVal(repr(float(xs[0]))), z3.RealVal(repr(float(ys[0]))), t)
    t = z3.If(x >= z3.RealVal(repr(float(xs[n - 1]))), z3.RealVal(repr(float(ys[n - 1]))), t)
    return t


class Interp:
    def __init__(self, fn, env, calls=None, unroll=8):
        src = textwrap.dedent(inspect.getsource(fn))
        self.tree = ast.parse(src).body[0]
        self.source_file = inspect.getsourcefile(fn)
        self.env0 = dict(env)
        self.calls = calls or {}
        self.unroll = unroll
        self.unwinding = []  # (guard term still true after the last unrolling)
        self.loops = 0

    # ---------------------------------------------------------------- expressions
    def ev(self, node, st):
        if isinstance(node, ast.Constant):
            return node.value
        if isinstance(node, ast.Name):
            if node.id in st:
                return st[node.id]
            raise Unsupported("unbound name " + node.id)
        if isinstance(node, ast.Attribute):
            base = self.ev(node.value, st)
            if isinstance(base, dict):
                return base[node.attr]
            return getattr(base, node.attr)
        if isinstance(node, ast.Tuple):
            return tuple(self.ev(e, st) for e in node.elts)
        if isinstance(node, ast.UnaryOp):
            v = self.ev(node.operand, st)
            if isinstance(node.op, ast.USub):
                return -v
            if isinstance(node.op, ast.Not):
                return z3.Not(v) if _is_z3(v) else (not v)
            raise Unsupported(ast.dump(node.op))
        if isinstance(node, ast.BinOp):
            a, b = self.ev(node.left, st), self.ev(node.right, st)
            sym = _is_z3(a) or _is_z3(b)
            if isinstance(node.op, ast.Add):
                return _to_real(a) + _to_real(b) if sym else a + b
            if isinstance(node.op, ast.Sub):
                return _to_real(a) - _to_real(b) if sym else a - b
            if isinstance(node.op, ast.Mult):
                return _to_real(a) * _to_real(b) if sym else a * b
            if isinstance(node.op, ast.Div):
                return _to_real(a) / _to_real(b) if sym else a / b
            raise Unsupported(ast.dump(node.op))
        if isinstance(node, ast.Compare):
            left = self.ev(node.left, st)
            out = True
            for op, rn in zip(node.ops, node.comparators):
                right = self.ev(rn, st)
                sym = _is_z3(left) or _is_z3(right)
                l, r = (_to_real(left), _to_real(right)) if sym else (left, right)
                if isinstance(op, ast.Lt):
                    c = l < r
                elif isinstance(op, ast.LtE):
                    c = l <= r
                elif isinstance(op, ast.Gt):
                    c = l > r
                elif isinstance(op, ast.GtE):
                    c = l >= r
                elif isinstance(op, ast.Eq):
                    c = l == r
                elif isinstance(op, ast.NotEq):
                    c = l != r
                else:
                    raise Unsupported(ast.dump(op))
                out = self._and(out, c)
                left = right
            return out
        if isinstance(node, ast.BoolOp):
            vals = [self.ev(v, st) for v in node.values]
            out = vals[0]
            for v in vals[1:]:
                out = self._and(out, v) if isinstance(node.op, ast.And) else self._or(out, v)
            return out
        if isinstance(node, ast.Call):
            name = ast.unparse(node.func)
            args = [self.ev(a, st) for a in node.args]
            if name in self.calls:
                return self.calls[name](*args)
            if name == "min":
                out = args[0]
                for a in args[1:]:
                    out = smin(out, a)
                return out
            if name == "max":
                out = args[0]
                for a in args[1:]:
                    out = smax(out, a)
                return out
            if name == "float":
                return args[0]
            if name == "int":
                v = args[0]
                return z3.ToInt(_to_real(v)) if _is_z3(v) else int(v)
            if name == "abs":
                v = args[0]
                return z3.If(_to_real(v) >= 0, _to_real(v), -_to_real(v)) if _is_z3(v) else abs(v)
            raise Unsupported("call " + name)
        if isinstance(node, ast.IfExp):
            return ite(self.ev(node.test, st), self.ev(node.body, st), self.ev(node.orelse, st))
        raise Unsupported(ast.dump(node)[:80])

    @staticmethod
    def _and(a, b):
        if not _is_z3(a) and not _is_z3(b):
            return bool(a) and bool(b)
        return z3.And(_b(a), _b(b))

    @staticmethod
    def _or(a, b):
        if not _is_z3(a) and not _is_z3(b):
            return bool(a) or bool(b)
        return z3.Or(_b(a), _b(b))

    # ---------------------------------------------------------------- statements (state merging)
    def _merge(self, c, sa, sb):
        out = {}
        for k in set(sa) | set(sb):
            if k in sa and k in sb:
                out[k] = ite(c, sa[k], sb[k])
            else:
                out[k] = sa.get(k, sb.get(k))
        return out

    def block(self, stmts, st):
        """returns the state after the block; st['$ret'] / st['$done'] carry merged early returns"""
        for s in stmts:
            st = self.stmt(s, st)
        return st

    def _assign(self, target, val, st):
        st = dict(st)
        if isinstance(target, ast.Name):
            st[target.id] = val
        elif isinstance(target, ast.Tuple):
            for t, v in zip(target.elts, val):
                st = self._assign(t, v, st)
        else:
            raise Unsupported("assign target " + ast.dump(target)[:60])
        return st

    def stmt(self, s, st):
        done = st.get("$done", False)
        if isinstance(s, ast.Expr):
            return st  # docstrings / bare expressions
        if isinstance(s, ast.Assign):
            new = self._assign(s.targets[0], self.ev(s.value, st), st)
        elif isinstance(s, ast.AnnAssign):
            new = self._assign(s.target, self.ev(s.value, st), st)
        elif isinstance(s, ast.AugAssign):
            cur = self.ev(s.target, st)
            fake = ast.BinOp(left=ast.Constant(0), op=s.op, right=ast.Constant(0))
            st2 = dict(st)
            st2["$l"], st2["$r"] = cur, self.ev(s.value, st)
            fake.left, fake.right = ast.Name(id="$l"), ast.Name(id="$r")
            new = self._assign(s.target, self.ev(fake, st2), st)
        elif isinstance(s, ast.Return):
            new = dict(st)
            new["$ret"] = self.ev(s.value, st) if s.value is not None else None
            new["$done"] = True
        elif isinstance(s, ast.If):
            c = self.ev(s.test, st)
            if not _is_z3(c):
                new = self.block(s.body if c else s.orelse, st)
            else:
                a = self.block(s.body, st)
                b = self.block(s.orelse, st)
                new = self._merge(c, a, b)
        elif isinstance(s, ast.While):
            self.loops += 1
            new = st
            for _ in range(self.unroll):
                g = self.ev(s.test, new)
                if not _is_z3(g):
                    if not g:
                        break
                    new = self.block(s.body, new)
                else:
                    body = self.block(s.body, new)
                    new = self._merge(g, body, new)
            g = self.ev(s.test, new)
            self.unwinding.append(_b(g))
        else:
            raise Unsupported(type(s).__name__)
        if _is_z3(done) or done:
            # statements after an early return have no effect on the returned value
            return self._merge(done, st, new) if _is_z3(done) else st
        return new

    def run(self):
        st = self.block(self.tree.body, dict(self.env0))
        return st.get("$ret"), st


def check(assumptions, goal, timeout_s=60.0, extra_solver=None):
    """decide (assumptions => goal): returns ('unsat'|'sat'|'unknown', model or None, seconds)"""
    import time

    s = z3.Solver()
    s.set("timeout", int(timeout_s * 1000))
    for a in assumptions:
        s.add(a)
    s.add(z3.Not(goal))
    t0 = time.time()
    r = s.check()
    dt = time.time() - t0
    if r == z3.sat:
        return "sat", s.model(), dt
    return str(r), None, dt


def model_value(m, v):
    x = m.eval(v, model_completion=True)
    if z3.is_int_value(x):
        return x.as_long()
    if z3.is_rational_value(x):
        return x.numerator_as_long() / x.denominator_as_long()
    if z3.is_algebraic_value(x):
        return float(x.approx(20).as_decimal(20).rstrip("?"))
    if z3.is_true(x):
        return True
    if z3.is_false(x):
        return False
    return str(x)


def eval_term(term, binding):
    """evaluate a z3 term under concrete values (translation validation)"""
    subs = []
    for var, val in binding.items():
        if var.sort() == z3.IntSort():
            subs.append((var, z3.IntVal(int(val))))
        else:
            subs.append((var, z3.RealVal(repr(float(val)))))
    t = z3.simplify(z3.substitute(term, *subs))
    if z3.is_rational_value(t):
        return t.numerator_as_long() / t.denominator_as_long()
    if z3.is_int_value(t):
        return t.as_long()
    if z3.is_true(t):
        return True
    if z3.is_false(t):
        return False
    return float(t.approx(20).as_decimal(20).rstrip("?")) if z3.is_algebraic_value(t) else t
