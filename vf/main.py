"""
./check <Cxx> [--tier quick|thorough]     run the property's check
./check --replay <file>                   replay a counterexample file against the real code
"""
import argparse
import importlib
import json
import os
import sys
import time

from vf import driver
from vf.evidence import write_evidence


def main():
    ap = argparse.ArgumentParser()
    ap.add_argument("prop", nargs="?")
    ap.add_argument("--tier", default=os.environ.get("VERIF_TIER", "quick"))
    ap.add_argument("--replay")
    a = ap.parse_args()
    if a.replay:
        r = driver.run_replay(a.replay)
        print(json.dumps(r))
        sys.exit(1 if r.get("verdict") == "violates" else (0 if r.get("verdict") == "holds" else 2))
    prop = a.prop.upper()
    tier = a.tier if a.tier in ("quick", "thorough") else "quick"
    seed = int(os.environ.get("VERIF_SEED", "0") or 0)
    t0 = time.time()
    pm = importlib.import_module("vf.props." + prop.lower())
    plan = pm.plan(tier)
    only = os.environ.get("VF_ONLY")  # testing aid (seeded changes): run only the conditions whose label matches; never used by MANIFEST commands
    if only:
        import re
        plan["conds"] = [c for c in plan["conds"] if re.search(only, c.name)]
        plan["min_classes"] = 0
    print(f"[{prop}] tier={tier} conditions={len(plan['conds'])} jobs={driver.NCPU}")
    results = driver.run_all(prop, plan["conds"])
    wall = time.time() - t0

    violations = [r for r in results if r["verdict"] == "violation"]
    incon = [r for r in results if r["verdict"] in ("inconclusive", "vacuous")]
    known = [h for r in results for h in r.get("known_hits", [])]
    # vacuity: minimum number of distinct outcome classes
    classes = sorted({tuple(n) for r in results for n in r.get("notes", [])}, key=repr)
    min_classes = plan.get("min_classes", 2)
    vacuous = len(classes) < min_classes and not violations
    if not only and not os.environ.get("VF_REPO"):  # evidence describes full runs against /repo itself only
        write_evidence(prop, tier, seed, plan, results, classes, wall, len(violations))

    seen = set()
    for h in known:
        key = h["finding"]["id"]
        if key in seen:
            continue
        seen.add(key)
        print(f"KNOWN-FINDING: property={prop} {h['finding']['what']} (replay={h['replay']})")
    total_paths = sum(r["paths"] for r in results)
    cpu = sum(r["cpu_s"] for r in results)
    print(f"[{prop}] paths={total_paths} cpu={cpu:.0f}s wall={wall:.0f}s classes={len(classes)} "
          f"violations={len(violations)} inconclusive={len(incon)} known={len(seen)}")
    if violations:
        for r in violations:
            print(f"VIOLATION property={prop} replay={r['detail']}")
        sys.exit(1)
    if incon or vacuous:
        for r in incon:
            print(f"INCONCLUSIVE {r['name']}: {r['verdict']} {r['detail']}")
        if vacuous:
            print(f"INCONCLUSIVE: only {len(classes)} outcome classes reached, {min_classes} required")
        sys.exit(2)
    sys.exit(0)


if __name__ == "__main__":
    try:
        main()
    except SystemExit:
        raise
    except BaseException:  # a bug in the machinery is never reported as a verdict about hive
        import traceback

        traceback.print_exc()
        print("INCONCLUSIVE: harness error")
        sys.exit(2)
