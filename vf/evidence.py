import json
import os

ROOT = os.path.dirname(os.path.dirname(os.path.abspath(__file__)))


def write_evidence(prop, tier, seed, plan, results, classes, wall, n_viol):
    funcs = sorted({f for r in results for f in r.get("functions", [])})
    per = []
    for r in results:
        per.append({k: r.get(k) for k in ("name", "expect", "verdict", "detail", "status", "exhausted", "paths",
                                          "confirmed_paths", "cpu_s", "wall_s", "float_model", "timeout_s", "rounds", "smt")})
    samples = []
    for r in results:
        for n in r.get("notes", [])[:2]:
            samples.append({"harness": r["name"], "outcome_class": list(n)})
        if len(samples) >= 12:
            break
    for r in results:
        for h in r.get("known_hits", []):
            samples.append({"harness": r["name"], "known_finding": h["finding"]["id"], "counterexample_args": h["args"]})
    if not samples:
        samples = [{"harness": r["name"], "verdict": r["verdict"]} for r in results[:3]]
    paths = sum(r.get("paths", 0) for r in results)
    ev = {
        "property_id": prop,
        "tier": tier,
        "seed": seed,
        "level": "other",
        "coverage": {
            "explanation": plan.get("explanation", "")
            + " Technique: bounded symbolic execution of the real functions (CrossHair 0.0.110 + z3), every path decided by the SMT solver;"
              " a condition counts as held only if CrossHair's search tree was exhausted.",
            "evaluations": paths,
            "distinct_nontrivial": len(classes),
            "rule": "evaluations = solver-decided execution paths summed over conditions; distinct_nontrivial = distinct outcome classes "
                    "(tuples noted by the harness on a path that reached the code under test, e.g. (previous activity, instruction, accepted/rejected)) "
                    "collected from all paths of this run",
            "samples": samples,
            "exhaustive": all(r.get("exhausted") for r in results if r.get("expect") == "confirm"),
            "functions_encoded": funcs,
            "entry_points": plan.get("entry_points", []),
            "bounds": plan.get("bounds", []),
            "outside_claim": plan.get("outside", []),
            "stubs": plan.get("stubs", []),
            "queries_discharged": paths,
            "solver": "z3 5.1.0 via CrossHair 0.0.110"
            + (" ; z3 direct on AST-generated encodings (py2smt)" if any((r.get("smt") or {}).get("engine") for r in results) else "")
            + (" ; AST site inventory (no solver)" if any((r.get("smt") or {}).get("kind") == "ast-inventory" for r in results) else ""),
            "smt_details": [dict(name=r["name"], **{k: v for k, v in (r.get("smt") or {}).items() if k != "queries"},
                                 queries=(r.get("smt") or {}).get("queries", [])[:60]) for r in results if r.get("smt")],
            "solver_cpu_s": round(sum(r.get("cpu_s", 0) for r in results), 1),
            "conditions": per,
            "outcome_classes": [list(c) for c in classes][:400],
        },
        "assumptions": plan.get("assumptions", []),
        "wall_s": round(wall, 1),
        "violations": n_viol,
    }
    os.makedirs(os.path.join(ROOT, "evidence"), exist_ok=True)
    with open(os.path.join(ROOT, "evidence", prop + ".json"), "w") as f:
        json.dump(ev, f, indent=1, default=str)
