"""
Bootstrap shared by every harness process.

MODE is "symbolic" inside a CrossHair worker (vf.worker) and "concrete" inside a replay
(vf.replay, run by /venv/bin/python without CrossHair importable or imported).

Nothing here touches /repo: all tweaks are to the harness process.
"""
import logging
import os
import sys
import warnings

warnings.filterwarnings("ignore")
logging.disable(logging.CRITICAL)  # hive logs through a rich handler -> CrossHair NotDeterministic

MODE = os.environ.get("VF_MODE", "concrete")
FLOAT_MODEL = os.environ.get("VF_FLOAT", "real")  # real | ieee
SYMBOLIC = MODE == "symbolic"

_NOTES = []  # outcome classes noted by harness functions (concrete tuples of str/int)
_SAMPLES = []


def _setup_symbolic():
    import crosshair.opcode_intercept as oi
    import crosshair.libimpl.builtinslib as bl
    from nrel.hive.model.energy.energytype import EnergyType

    # enum keys in dict comprehensions: keep them as plain dict keys (hash by identity)
    if EnergyType not in oi.ATOMIC_IMMUTABLE_TYPES:
        oi.ATOMIC_IMMUTABLE_TYPES = oi.ATOMIC_IMMUTABLE_TYPES + (EnergyType,)
    import crosshair.core_and_libs  # noqa: performs the library registrations (which are then overridden below)
    import crosshair.core as core

    # Argument creation without CrossHair's "premature realization" heuristic: by default every int / bool / float
    # argument sits behind a ParallelNode offering a concretely sampled value as an alternative to the symbolic one.
    # Paths that touch real-modelled floats are capped at UNKNOWN, and a ParallelNode whose symbolic side is UNKNOWN
    # is only exhausted when the sampling side is exhausted too -- which never happens.  Arguments are plain
    # symbolic values here; the searches either exhaust or are reported inconclusive.
    # No short-circuiting: CrossHair may replace a call to any function that carries a contract (its own patched
    # repr(), or one harness function calling another) by an uninterpreted symbolic return value behind a ParallelNode.
    # Every call is executed for real here.
    core.ShortCircuitingContext.make_interceptor = lambda self, original: original
    # Formatting a symbolic number (f-strings in log / error messages, str(x) in report fields) realises it, i.e. turns
    # the search into an enumeration of values.  Formatting is never a subject: a symbolic number formats as "<sym>".
    from crosshair.tracers import NoTracing as _NT

    _sym_num = (bl.SymbolicInt, bl.RealBasedSymbolicFloat, bl.SymbolicBool)
    _orig_format = core._PATCH_REGISTRATIONS[format]
    _orig_str = core._PATCH_REGISTRATIONS[str]

    from crosshair.tracers import ResumedTracing as _RT

    def _vf_format(obj, format_spec=""):
        # same logic as CrossHair's _format, except that a symbolic number is not realised
        with _NT():
            if isinstance(obj, _sym_num):
                return "<sym>"
            if isinstance(format_spec, bl.AnySymbolicStr):
                format_spec = core.realize(format_spec)
            if format_spec in ("", "s") and isinstance(obj, bl.AnySymbolicStr):
                return obj
            obj = core.deep_realize(obj)
            result = bl.invoke_dunder(obj, "__format__", format_spec)
            if result is not bl._MISSING:
                return result
            return format(obj, format_spec)

    def _vf_str(*a):
        # same logic as CrossHair's _str, except that a symbolic number is not turned into symbolic digits
        with _NT():
            if len(a) == 1:
                (x,) = a
                if isinstance(x, _sym_num):
                    return "<sym>"
                if isinstance(x, bl.AnySymbolicStr):
                    return x
                with _RT():
                    return bl.invoke_dunder(x, "__str__")
            return str(*a)

    core._PATCH_REGISTRATIONS[format] = _vf_format
    core._PATCH_REGISTRATIONS[str] = _vf_str
    core._SIMPLE_PROXIES[int] = lambda creator, *a: bl.SymbolicBoundedInt(creator.varname, creator.pytype)
    core._SIMPLE_PROXIES[bool] = lambda creator, *a: bl.SymbolicBool(creator.varname, creator.pytype)
    if FLOAT_MODEL == "real":
        bl._PYTYPE_TO_WRAPPER_TYPE[float] = ((bl.RealBasedSymbolicFloat, 1.0),)
        # float ARGUMENTS range over finite reals: the default creator also forks every float argument four ways
        # (finite / nan / -inf / +inf); every harness bounds its float arguments, so the three special values were
        # only ever rejected by the preconditions -- at a cost of 4^k trivial paths
        core._SIMPLE_PROXIES[float] = lambda creator, *a: bl.RealBasedSymbolicFloat(creator.varname, creator.pytype)
    elif FLOAT_MODEL == "ieee":
        bl._PYTYPE_TO_WRAPPER_TYPE[float] = ((bl.PreciseIeeeSymbolicFloat, 1.0),)


if SYMBOLIC:
    _setup_symbolic()


class _NullCtx:
    def __enter__(self):
        return self

    def __exit__(self, *a):
        return False


def no_tracing():
    if SYMBOLIC:
        from crosshair.tracers import NoTracing

        return NoTracing()
    return _NullCtx()


def note(*cls):
    """record an outcome class reached on this path; every element must be concrete"""
    with no_tracing():
        try:
            t = tuple(x if isinstance(x, (str, int, bool, type(None))) and type(x) in (str, int, bool, type(None)) else "?" for x in cls)
        except BaseException:
            return
        _NOTES.append(t)


def is_symbolic(x) -> bool:
    if not SYMBOLIC:
        return False
    with no_tracing():
        return type(x).__module__.startswith("crosshair")


def feq(a, b, tol=1e-9) -> bool:
    """
    equality of two float quantities: exact under the real-arithmetic float model
    (the law is checked in R), tolerance under IEEE / concrete replay.
    """
    if SYMBOLIC and FLOAT_MODEL == "real":
        return a == b
    d = a - b
    if d < 0:
        d = -d
    m = 1.0
    aa = a if a >= 0 else -a
    bb = b if b >= 0 else -b
    if aa > m:
        m = aa
    if bb > m:
        m = bb
    return d <= tol * m


def fle(a, b, tol=1e-9) -> bool:
    """a <= b with the same convention as feq"""
    if SYMBOLIC and FLOAT_MODEL == "real":
        return a <= b
    m = 1.0
    aa = a if a >= 0 else -a
    bb = b if b >= 0 else -b
    if aa > m:
        m = aa
    if bb > m:
        m = bb
    return a <= b + tol * m
