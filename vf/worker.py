"""
One CrossHair analysis of one harness condition, in its own process.

usage: python -m vf.worker <module> <function> <case> <timeout_s> <float_model> [<exclusions-json>]

Prints exactly one line starting with "VFRESULT " followed by JSON:
  status            CONFIRMED | UNKNOWN | REFUTED
  exhausted         bool  (CrossHair's search tree was exhausted)
  paths             int   (iterations = solver-decided paths)
  confirmed_paths   int
  cpu_s             float
  messages          [{state, message}]
  cex               {"args": {...}} parsed from the counterexample message, if any
  notes             distinct outcome classes reached (list of lists)
  functions         qualified names of nrel.hive functions entered under tracing
"""
import os
import sys
import json
import time
import ast
import collections
import importlib
import inspect
import traceback

os.environ["VF_MODE"] = "symbolic"


def _parse_call(msg: str, fn):
    """'false when calling f(1, b=2.0)' -> {'a': 1, 'b': 2.0}"""
    key = "when calling "
    i = msg.find(key)
    if i < 0:
        return None
    src = msg[i + len(key):].strip()
    # strip trailing ' (which returns ...)'
    depth = 0
    end = None
    for j, ch in enumerate(src):
        if ch == "(":
            depth += 1
        elif ch == ")":
            depth -= 1
            if depth == 0:
                end = j + 1
                break
    if end is None:
        return None
    src = src[:end]
    try:
        node = ast.parse(src, mode="eval").body
    except SyntaxError:
        return None
    if not isinstance(node, ast.Call):
        return None

    def ev(n):
        try:
            return ast.literal_eval(n)
        except Exception:
            txt = ast.unparse(n)
            if txt in ("float('nan')", "nan", "math.nan"):
                return float("nan")
            if txt in ("float('inf')", "inf", "math.inf"):
                return float("inf")
            if txt in ("-float('inf')", "float('-inf')", "-inf", "-math.inf"):
                return float("-inf")
            raise

    params = list(inspect.signature(fn).parameters)
    out = {}
    try:
        for k, a in enumerate(node.args):
            out[params[k]] = ev(a)
        for kw in node.keywords:
            out[kw.arg] = ev(kw.value)
    except Exception:
        return None
    return out


def _with_extra_preconditions(mod, fn, pres):
    """
    CrossHair reads PEP316 conditions from the function's SOURCE LINES (not from __doc__), so extra preconditions
    (regions of known findings / neighbourhoods of non-reproducing counterexamples) are added by re-compiling the
    function from its source text with additional `pre:` lines, registered in linecache under a synthetic file name.
    """
    import linecache
    import textwrap

    src = textwrap.dedent(inspect.getsource(fn))
    lines = src.split("\n")
    idx = next((k for k, l in enumerate(lines) if l.strip().startswith("post:")), None)
    if idx is None:
        raise RuntimeError("harness function without a post: line")
    indent = lines[idx][: len(lines[idx]) - len(lines[idx].lstrip())]
    new_src = "\n".join(lines[:idx] + [indent + "pre: " + p for p in pres] + lines[idx:]) + "\n"
    fname = "<vf-extra-pre-%s-%d>" % (fn.__name__, abs(hash(new_src)) % 10**8)
    linecache.cache[fname] = (len(new_src), None, new_src.splitlines(True), fname)
    code = compile(new_src, fname, "exec")
    ns = mod.__dict__
    exec(code, ns)
    return ns[fn.__name__]


def _analyze_one(modname, fnname, case, timeout, floatmodel, exclusions, first):
    from vf import boot
    import crosshair.core as core
    from crosshair.core_and_libs import analyze_function, run_checkables
    from crosshair.options import AnalysisOptionSet, AnalysisKind
    from crosshair.tracers import TracingModule, COMPOSITE_TRACER
    import dis

    os.environ["VF_CASE"] = str(case)
    t_wall = time.time()
    boot._NOTES.clear()
    if modname in sys.modules and not first:
        mod = importlib.reload(sys.modules[modname])
    else:
        mod = importlib.import_module(modname)
    fn = getattr(mod, fnname)
    if exclusions:
        fn = _with_extra_preconditions(mod, fn, ["not (%s)" % e for e in exclusions])

    records = []
    exh = []
    _orig = core.analyze_calltree

    def _wrapped(options, conditions):
        t0 = time.process_time()
        res = _orig(options, conditions)
        records.append(
            {
                "status": str(res.verification_status),
                "paths": int(options.stats.get("num_paths", 0)) if options.stats is not None else -1,
                "confirmed_paths": int(res.num_confirmed_paths),
                "cpu_s": round(time.process_time() - t0, 2),
            }
        )
        return res

    _odebug = core.debug

    def _debug(*a):
        if a and a[0] in ("Exhausted", "Aborted"):
            exh.append(a[0])
        elif a and isinstance(a[0], str) and a[0].startswith("Ignoring based on internal failed post condition"):
            # CrossHair enforces the contracts of CALLED functions and silently drops a path on which a callee's own
            # postcondition fails ("it will be surfaced in the subroutine"): for a harness that wraps another harness
            # this would hide exactly the failures looked for -- count it as a cut path (=> inconclusive)
            cut["unexplored"] += 1
        return _odebug(*a)

    seen_codes = set()

    class _Cov(TracingModule):
        opcodes_wanted = frozenset(
            dis.opmap[o]
            for o in ("CALL", "CALL_FUNCTION_EX", "RETURN_VALUE", "RETURN_CONST", "COMPARE_OP", "BINARY_OP")
            if o in dis.opmap
        )

        def trace_op(self, frame, codeobj, opcodenum):
            seen_codes.add(frame.f_code)

    # paths cut short by the solver (z3 unknown) or by the per-path timeout are counted: such a path is NOT explored,
    # and a condition with any of them is reported inconclusive even if CrossHair calls its tree exhausted
    import crosshair.statespace as ss
    from crosshair.util import UnexploredPath

    cut = {"unknown_sat": 0, "unexplored": 0}
    _orig_sat = ss.solver_is_sat
    _orig_attempt = core.attempt_call

    def _counted_sat(solver, *exprs):
        try:
            return _orig_sat(solver, *exprs)
        except ss.UnknownSatisfiability:
            cut["unknown_sat"] += 1
            raise

    def _counted_attempt(*a, **k):
        try:
            return _orig_attempt(*a, **k)
        except UnexploredPath:
            cut["unexplored"] += 1
            raise

    ss.solver_is_sat = _counted_sat
    core.attempt_call = _counted_attempt
    cov = _Cov()
    cov_ok = True
    core.analyze_calltree = _wrapped
    core.debug = _debug
    try:
        COMPOSITE_TRACER.push_module(cov)
    except Exception:
        cov_ok = False
    opts = AnalysisOptionSet(
        per_condition_timeout=float(timeout),
        analysis_kind=[AnalysisKind.PEP316],
        report_all=True,
        stats=collections.Counter(),
    )
    msgs = []
    err = None
    try:
        for m in run_checkables(analyze_function(fn, opts)):
            msgs.append({"state": m.state.name, "message": m.message[:2000], "line": m.line,
                         "tb": (m.traceback or "")[-1500:] if m.state.name in ("EXEC_ERR", "POST_ERR") else ""})
    except BaseException as e:  # noqa
        err = "".join(traceback.format_exception_only(type(e), e))[:2000]
    finally:
        core.analyze_calltree = _orig
        core.debug = _odebug
        ss.solver_is_sat = _orig_sat
        core.attempt_call = _orig_attempt
        if cov_ok:
            try:
                COMPOSITE_TRACER.pop_config(cov)
            except Exception:
                pass

    rec = records[-1] if records else {"status": "UNKNOWN", "paths": 0, "confirmed_paths": 0, "cpu_s": 0.0}
    cex = None
    for m in msgs:
        if m["state"] in ("POST_FAIL", "EXEC_ERR", "POST_ERR", "PRE_INVALID"):
            args = _parse_call(m["message"], fn)
            if args is not None:
                cex = {"args": args, "message": m["message"][:500], "kind": m["state"]}
                break
    notes = sorted(set(boot._NOTES), key=repr)
    funcs = sorted(
        {
            c.co_filename[c.co_filename.index("/nrel/hive/") + 1:] + ":" + getattr(c, "co_qualname", c.co_name)
            for c in seen_codes
            if "/nrel/hive/" in c.co_filename and "site-packages" not in c.co_filename
        }
    )
    out = dict(
        module=modname,
        function=fnname,
        case=int(case),
        float_model=floatmodel,
        status=rec["status"],
        exhausted=bool(exh and exh[-1] == "Exhausted"),
        paths=rec["paths"],
        confirmed_paths=rec["confirmed_paths"],
        cpu_s=rec["cpu_s"],
        wall_s=round(time.time() - t_wall, 2),
        messages=msgs,
        cex=cex,
        notes=[list(n) for n in notes],
        functions=funcs,
        error=err,
        exclusions=exclusions,
        cov_ok=cov_ok,
        hive_root=os.path.dirname(os.path.dirname(os.path.dirname(sys.modules["nrel.hive"].__file__))) if "nrel.hive" in sys.modules else None,
        unknown_sat=cut["unknown_sat"],
        unexplored=cut["unexplored"],
    )
    sys.stdout.write("\nVFRESULT " + json.dumps(out) + "\n")
    sys.stdout.flush()


def main():
    modname, fnname, cases, timeout, floatmodel = sys.argv[1:6]
    exclusions = json.loads(sys.argv[6]) if len(sys.argv) > 6 else []
    os.environ["VF_FLOAT"] = floatmodel
    first = True
    for case in cases.split(","):
        os.environ["VF_CASE"] = case
        if first:
            from vf import boot  # noqa: applies symbolic bootstrap
        _analyze_one(modname, fnname, int(case), timeout, floatmodel, exclusions, first)
        first = False


if __name__ == "__main__":
    main()
