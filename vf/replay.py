"""
Concrete replay of a counterexample against the real code, in an interpreter that has
no CrossHair loaded (run with /venv/bin/python).

usage: python -m vf.replay <replay.json>
prints: VFREPLAY {"verdict": "violates"|"holds"|"error", "detail": ...}
"""
import os
import sys
import json
import traceback


def main():
    path = sys.argv[1]
    with open(path) as f:
        d = json.load(f)
    os.environ["VF_MODE"] = "concrete"
    os.environ["VF_CASE"] = str(d["case"])
    os.environ["VF_FLOAT"] = d.get("float_model", "real")
    for k, v in d.get("env", {}).items():
        os.environ[k] = v
    assert "crosshair" not in sys.modules
    import importlib

    try:
        mod = importlib.import_module(d["module"])
        fn = getattr(mod, d["function"])
    except BaseException as e:
        print("VFREPLAY " + json.dumps({"verdict": "error", "detail": "import: " + repr(e)}))
        return
    assert "crosshair" not in sys.modules, "replay must not load CrossHair"
    rep = getattr(mod, "replay_" + d["function"], None)
    try:
        res = rep(**d["args"]) if rep is not None else fn(**d["args"])
        verdict = "holds" if res else "violates"
        detail = "returned %r" % (res,)
    except BaseException as e:
        # an exception escaping the real code is a violation; one raised by the harness itself (innermost frame under
        # /verif/vf, e.g. a NameError in an oracle) is a harness error and must never be reported as a finding
        tb = traceback.extract_tb(e.__traceback__)
        here = os.path.dirname(os.path.abspath(__file__)) + os.sep
        inner = tb[-1].filename if tb else ""
        in_harness = os.path.abspath(inner).startswith(here)
        verdict = "harness-error" if in_harness else "violates"
        where = "%s:%s" % (os.path.basename(inner), tb[-1].lineno) if tb else "?"
        detail = "raised " + "".join(traceback.format_exception_only(type(e), e)).strip()[:500] + " at " + where
    print("VFREPLAY " + json.dumps({"verdict": verdict, "detail": detail}))


if __name__ == "__main__":
    main()
