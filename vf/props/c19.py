from vf.driver import Cond
from vf.props import common as C


def plan(tier):
    conds = C.t_upd_conds("C19", tier, kinds=range(11))
    for case in range(18):
        hp, nu, nw = case // 9, (case // 3) % 3, case % 3
        conds.append(Cond("vf.h.h_req", "h_step", case=case, timeout=300, label=f"H19-req[hist={hp},unread={nu},waiting={nw}]", weight=1 + nu * nw * 3))
    conds.append(Cond("vf.h.h_misc", "h_wait", case=0, timeout=300, label="H19-wait", weight=3))
    conds.append(Cond("vf.h.h_misc", "h_timediff", case=0, timeout=300, label="H19-timediff", weight=3))
    conds.append(Cond("vf.h.h_misc", "h_load", case=0, timeout=300, label="H19-load", weight=3))
    conds.append(Cond("vf.h.h_misc", "h_stats", case=0, timeout=300, label="H19-stats", weight=3))
    return {
        "conds": conds,
        "min_classes": 20,
        "explanation": "C19 (at the level of the Report objects handed to the reporter): T-upd: per vehicle update at most one move and one charge event, move distance == odometer change, "
                       "charge energy == energy gained, price == payment received by the right station, no state change without its event; pickup/drop-off events <=> request status changes (C03 oracle). "
                       "H19-req: one ADD event per admitted and one CANCEL event per cancelled request in a real admission + cancellation step (bursts included); H19-wait: real report_pickup_request: 0 <= wait <= cancel timeout + one step for any admission/pickup schedule; H19-timediff: real time_diff == (end-start) mod 86400 s; "
                       "H19-load: real construct_station_load_events: one load event per station, energy == sum of its charge events; H19-stats: real StatsHandler.handle counters == event counts.",
        "entry_points": ["vehicle_event_ops.vehicle_move_event/vehicle_charge_event/report_pickup_request/report_dropoff_request/construct_station_load_events", "StatsHandler.handle",
                         "time_helpers.time_diff", "step_simulation_ops.step_vehicle"],
        "bounds": C.T_BOUNDS[1:] + ["wait: dt 1..3600, timeout < 82799 s, pickup up to 1000 steps after admission", "load: <= 3 charge events over 2 stations", "stats: 2 flushes, 0..3 add and cancel events each"],
        "outside": ["records parsed back from the written log; the real file-writing handlers (I/O, json encoder)", "TimeStepStatsHandler, Kepler handler"],
        "stubs": C.STUBS_COMMON + C.STUBS_UPD + ["str() of a symbolic value inside construct_station_load_events returns a boxed constant text (formatting is not a subject)"],
        "assumptions": [],
    }
