from vf.props import common as C


def plan(tier):
    conds = []
    conds += C.t_upd_conds("C19", tier, kinds=range(11))
    return {
        "conds": conds,
        "min_classes": 20,
        "explanation": 'C19: per step, at most one move and one charge event; move event distance == odometer change; charge event energy == energy gained, price == payment received by the right station; state changes without event are refuted.',
        "entry_points": ['step_simulation_ops.step_vehicle (VehicleState.update -> default_update -> move/charge/idle/pick_up_trip/drop_off_trip)'],
        "bounds": C.ARENA_BOUNDS + C.T_BOUNDS,
        "outside": C.T_OUTSIDE,
        "stubs": C.STUBS_COMMON + C.STUBS_UPD,
        "assumptions": ["pre-state satisfies INV (DESIGN 3.2); INV base case is the loader's initial state"],
    }
