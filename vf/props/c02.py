from vf.props import common as C


def plan(tier):
    conds = []
    conds += C.t_instr_conds("C02", tier)
    conds += C.t_upd_conds("C02", tier)
    from vf.driver import Cond
    for r in ((1, 2) if tier == "quick" else range(5)):
        conds.append(Cond("vf.h.h_queue", "h_fifo", case=r, timeout=1500, env={"VF_ORACLE": "C02", "VF_ROLESET": "1,2,4,6"}, label=f"T-all[v0 role {r}]", weight=30))
    for case in range(3):
        conds.append(Cond("vf.h.h_prim", "h_prim", case=case, timeout=300, label=f"H02-prim[{('ChargerState', 'Station', 'Base')[case]}]", weight=3))
    return {
        "conds": conds,
        "min_classes": 150,
        "explanation": 'C02: counter invariant I-cnt (free plugs in [0,total]; total-free = vehicles charging there incl. via a base; queue counter = vehicles queueing; stalls likewise) is re-established by one real transition from an arbitrary INV pre-state (one-step induction).',
        "entry_points": ['step_simulation_ops.apply_instructions', 'step_simulation_ops.step_vehicle (VehicleState.update -> default_update -> move/charge/idle/pick_up_trip/drop_off_trip)'],
        "bounds": C.ARENA_BOUNDS + C.T_BOUNDS,
        "outside": C.T_OUTSIDE,
        "stubs": C.STUBS_COMMON + C.STUBS_UPD,
        "assumptions": ["pre-state satisfies INV (DESIGN 3.2); INV base case is the loader's initial state"],
    }
