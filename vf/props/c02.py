from vf.props import common as C


def plan(tier):
    conds = []
    conds += C.t_instr_conds("C02", tier)
    conds += C.t_upd_conds("C02", tier)
    return {
        "conds": conds,
        "min_classes": 150,
        "explanation": 'C02: counter invariant I-cnt (free plugs in [0,total]; total-free = vehicles charging there incl. via a base; queue counter = vehicles queueing; stalls likewise) is re-established by one real transition from an arbitrary INV pre-state (one-step induction).',
        "entry_points": ['step_simulation_ops.apply_instructions', 'step_simulation_ops.step_vehicle (VehicleState.update -> default_update -> move/charge/idle/pick_up_trip/drop_off_trip)'],
        "bounds": C.ARENA_BOUNDS + C.T_BOUNDS,
        "outside": C.T_OUTSIDE,
        "stubs": C.STUBS_COMMON + C.STUBS_UPD,
        "assumptions": ["pre-state satisfies INV (DESIGN 3.2); INV base case is the loader's initial state"],
    }
