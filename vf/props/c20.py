from vf.driver import Cond
from vf.props import common as C


def plan(tier):
    conds = [
        Cond("vf.h.h_shift", "h_range", case=0, timeout=100, label="H20-range"),
        Cond("vf.h.h_shift", "h_sched", case=0, timeout=100, label="H20-sched"),
        Cond("vf.h.h_shift", "h_drv", case=0, timeout=600, label="H20-drv[v0 idle]", weight=20),
        Cond("vf.h.h_shift", "h_drv", case=1, timeout=600, label="H20-drv[v0 carrying a passenger]", weight=20),
        Cond("vf.h.h_shift", "h_drv", case=2, timeout=600, label="H20-drv[v0 charging]", weight=20),
        Cond("vf.h.h_shift", "h_drv", case=3, timeout=600, label="H20-drv[v0 en route to a request]", weight=20),
        Cond("vf.h.h_shift", "h_step_shift", case=0, timeout=600, label="H20-step-at-shift-boundary", weight=20),
        Cond("vf.h.h_disp", "h_disp_shift", case=0, timeout=600, env={"VF_ORACLE": "C20"}, label="H20-disp[no fleets]", weight=20),
        Cond("vf.h.h_disp", "h_disp_shift", case=2, timeout=600, env={"VF_ORACLE": "C20"}, label="H20-disp[two fleets]", weight=20),
    ]
    return {
        "conds": conds,
        "min_classes": 12,
        "explanation": "C20: real time_in_range == membership in [start, end) on the 24 h circle (wrap, empty shift); the real schedule closure of read_time_range_row with symbolic "
                       "shift bounds agrees with it at any epoch clock (multi-day); real perform_driver_state_updates with two human drivers (symbolic shifts and current availability) "
                       "leaves available <=> in shift at sim_time with exactly one on/off event per flip and nothing else changed; the real Dispatcher never pairs an off-shift driver; real StepSimulation.update at a shift boundary assigns the waiting request iff the step's start time lies in the shift.",
        "entry_points": ["time_helpers.time_in_range", "time_range_schedule.read_time_range_row._schedule_fn", "step_simulation_ops.perform_driver_state_updates",
                         "HumanAvailable.update", "HumanUnavailable.update", "driver_event_ops.driver_schedule_event", "Dispatcher.generate_instructions"],
        "bounds": ["shift bounds and clock: any second of day / any epoch second < 2e9", "2 human drivers + 1 autonomous"],
        "outside": ["parsing of HH:MM:SS strings (strptime on symbolic strings)"],
        "stubs": C.STUBS_COMMON + ["datetime.utcfromtimestamp(t).time() modelled as t mod 86400 (stdlib contract for t >= 0)",
                                   "the closure's parsed start/end replaced by symbolic seconds-of-day (closure cells), its code is the real one"],
        "assumptions": [],
    }
