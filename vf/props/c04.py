from vf.props import common as C


def plan(tier):
    conds = []
    conds += C.t_upd_conds("C04", tier)
    return {
        "conds": conds,
        "min_classes": 20,
        "explanation": 'C04: one step keeps 0 <= energy <= capacity, energy change == gained - expended, totals non-decreasing, strictly positive expenditure when driving/idling/queueing, charging bounded by plug rate x step, out-of-energy stops instead of moving.',
        "entry_points": ['step_simulation_ops.step_vehicle (VehicleState.update -> default_update -> move/charge/idle/pick_up_trip/drop_off_trip)'],
        "bounds": C.ARENA_BOUNDS + C.T_BOUNDS,
        "outside": C.T_OUTSIDE,
        "stubs": C.STUBS_COMMON + C.STUBS_UPD,
        "assumptions": ["pre-state satisfies INV (DESIGN 3.2); INV base case is the loader's initial state"],
    }
