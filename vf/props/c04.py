from vf.driver import Cond
from vf.props import common as C


def plan(tier):
    conds = C.t_upd_conds("C04", tier)
    names = ("BEV.idle", "BEV.consume_energy", "BEV.add_energy", "ICE.idle", "ICE.consume_energy", "ICE.add_energy")
    for case in range(6):
        conds.append(Cond("vf.h.h_led", "h_led", case=case, timeout=300, label=f"H04-led[{names[case]}]", weight=3))
    conds.append(Cond("vf.h.k_curve", "curve_inductive", case=0, timeout=300, engine="smt", label="H04-curve-inductive[shipped 41-point table]", weight=2))
    conds.append(Cond("vf.h.k_curve", "curve_inductive", case=2, timeout=300, engine="smt", label="H04-curve-inductive[4-point table, 30 s]", weight=2))
    conds.append(Cond("vf.h.k_curve", "curve", case=1, timeout=300, engine="smt", label="H04-curve-unrolled[shipped, symbolic duration <= 60 s]", weight=2))
    conds.append(Cond("vf.h.k_curve", "curve", case=0, timeout=900, engine="smt", label="H04-curve-unrolled[shipped, durations 1..120 s]", weight=8))
    if tier == "thorough":
        conds.append(Cond("vf.h.k_curve", "curve", case=2, timeout=900, engine="smt", label="H04-curve-unrolled[4-point, durations 1..89 s]", weight=8))
    return {
        "conds": conds,
        "min_classes": 30,
        "explanation": "C04: (a) T-upd: one real vehicle update from an arbitrary INV state keeps 0 <= energy <= capacity, energy change == gained - expended, totals non-decreasing, "
                       "strictly positive expenditure when driving / idling / queueing with energy left, charging bounded by plug rate x step, an empty vehicle stops instead of moving. "
                       "(b) H04-led: the six ledger kernels of BEV and ICE with symbolic capacity, idle rate, plug rate, taper cutoff and a duck-typed powertrain with symbolic cost. "
                       "(c) H04-curve: a z3 encoding generated from the AST of the real TabularPowercurve.charge (shipped 41-point table): loop-invariant form (any duration, any number of "
                       "sub-steps: init / step / variant / exit obligations) and unrolled form with unwinding obligation and translation validation against the real function.",
        "entry_points": ["step_simulation_ops.step_vehicle", "BEV.idle/consume_energy/add_energy", "ICE.idle/consume_energy/add_energy", "TabularPowercurve.charge",
                         "vehicle_state_ops.move/charge", "Vehicle.tick_energy_expended/tick_energy_gained/modify_energy"],
        "bounds": C.ARENA_BOUNDS + C.T_BOUNDS[1:] + ["H04-led: capacity 1..500, rates 0..500, cost 0..1000, step from {1,7,60,100,120} s (rate x time with both symbolic is non-linear)",
                                                      "H04-curve: start <= limit <= 50 kWh, power 0..500 kW; inductive form: any real duration; unrolled: durations {1,7,30,59,60,61,90,119,120} s and symbolic <= 60 s"],
        "outside": C.T_OUTSIDE + ["TabularPowertrain.link_cost itself (numpy interp on concrete speeds: run for real in T-upd)", "rounding drift over long histories (floats as reals)"],
        "stubs": C.STUBS_COMMON + C.STUBS_UPD + ["py2smt: np.interp encoded as a nested ite over the table read from the real object; float constants as decimal literals"],
        "assumptions": ["pre-state satisfies INV"],
    }
