from vf.props import common as C


def plan(tier):
    conds = []
    conds += C.t_instr_conds("C03", tier)
    conds += C.t_upd_conds("C03", tier, kinds=range(11))
    from vf.driver import Cond
    for case in range(18):
        hp, nu, nw = case // 9, (case // 3) % 3, case % 3
        conds.append(Cond("vf.h.h_req", "h_step", case=case, timeout=300, label=f"T-req[hist={hp},unread={nu},waiting={nw}]", weight=1 + nu * nw * 3))
    return {
        "conds": conds,
        "min_classes": 150,
        "explanation": 'C03: request status changes only waiting->onboard (one pickup event, fare credited once to the picking vehicle, at the origin), onboard->done (one drop-off event at the destination by the carrying vehicle) or waiting->cancelled; instructions never resolve or lose a request and cannot divert a vehicle carrying passengers. T-req: one real admission + cancellation step (bursts: two requests expiring / arriving together) admits and cancels each request exactly once with one event each. One-step preservation gives exactly-once over histories.',
        "entry_points": ['step_simulation_ops.apply_instructions', 'step_simulation_ops.step_vehicle (VehicleState.update -> default_update -> move/charge/idle/pick_up_trip/drop_off_trip)'],
        "bounds": C.ARENA_BOUNDS + C.T_BOUNDS,
        "outside": C.T_OUTSIDE,
        "stubs": C.STUBS_COMMON + C.STUBS_UPD,
        "assumptions": ["pre-state satisfies INV (DESIGN 3.2); INV base case is the loader's initial state"],
    }
