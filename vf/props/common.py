"""condition lists shared by several properties"""
from vf.driver import Cond
from vf.h import arena_meta as M

STUBS_COMMON = [
    "logging disabled (hive's rich handler makes CrossHair non-deterministic; logging is not a subject)",
    "env.reporter replaced by a recording reporter (file_report appends; same one-liner as Reporter.file_report)",
    "uuid4 left real (instance ids never steer control flow)",
    "h3 C functions run for real on concrete cells (geometry is concrete on each path)",
]

ARENA_BOUNDS = [
    "arena: stations s0@A (LEVEL_2, DCFC, gas_pump), s1@B (LEVEL_2, serves base b0); bases b0@B, b1@E; requests r0 C->D, r1 C->F; haversine road network",
    "counters (installed / ghost-occupied / ghost-queued plugs, stalls) are unbounded symbolic ints; ghosts stand for any number of unmodelled vehicles",
]


def t_instr_conds(oracle, tier, timeout=150):
    conds = []
    for kind in range(M.N_KINDS):
        for ik in range(M.N_INSTR):
            conds.append(
                Cond(
                    "vf.h.t_instr",
                    "t_instr",
                    case=kind * M.N_INSTR + ik,
                    timeout=timeout,
                    env={"VF_ORACLE": oracle},
                    label=f"T-instr[{M.KIND_NAMES[kind]}<-{M.INSTR_NAMES[ik]}]",
                    weight=(4 if kind in (9, 12) else 3 if kind == 7 else 2 if kind in (3, 4) else 1)
                    * (3 if ik in (2, 3, 4, 9, 10, 14) else 1),
                )
            )
    # reachability twins: one per previous activity
    for kind in range(M.N_KINDS):
        conds.append(
            Cond("vf.h.t_instr", "t_instr_reach", case=kind * M.N_INSTR, timeout=60, env={"VF_ORACLE": oracle},
                 expect="refute", label=f"T-instr-reach[{M.KIND_NAMES[kind]}]")
        )
    return conds
