"""condition lists shared by several properties"""
from vf.driver import Cond
from vf.h import arena_meta as M

STUBS_COMMON = [
    "logging disabled (hive's rich handler makes CrossHair non-deterministic; logging is not a subject)",
    "env.reporter replaced by a recording reporter (file_report appends; same one-liner as Reporter.file_report)",
    "uuid4 left real (instance ids never steer control flow)",
    "h3 C functions run for real on concrete cells (geometry is concrete on each path)",
]

ARENA_BOUNDS = [
    "arena: stations s0@A (LEVEL_2, DCFC throttled to 30 kW, gas_pump), s1@B (LEVEL_2, serves base b0); bases b0@B (served by s1), b1@E (no station), b2@F (served by the remote station s0@A); requests r0 C->D, r1 C->F; haversine road network",
    "counters (installed / ghost-occupied / ghost-queued plugs, stalls) are unbounded symbolic ints; ghosts stand for any number of unmodelled vehicles",
]


def t_instr_conds(oracle, tier, timeout=150, fn="t_instr", kinds=None):
    conds = []
    for kind in (kinds if kinds is not None else range(M.N_KINDS)):
        for ik in range(M.N_INSTR):
            conds.append(
                Cond(
                    "vf.h.t_instr",
                    fn,
                    case=kind * M.N_INSTR + ik,
                    timeout=timeout,
                    env={"VF_ORACLE": oracle},
                    label=f"T-instr[{M.KIND_NAMES[kind]}<-{M.INSTR_NAMES[ik]}]",
                    weight=(4 if kind in (9, 12) else 3 if kind == 7 else 2 if kind in (3, 4) else 1)
                    * (3 if ik in (2, 3, 4, 9, 10, 14, 16) else 1),
                )
            )
    # reachability twins: one per previous activity
    for kind in (kinds if kinds is not None else range(M.N_KINDS)):
        conds.append(
            Cond("vf.h.t_instr", "t_instr_reach", case=kind * M.N_INSTR, timeout=60, env={"VF_ORACLE": oracle},
                 expect="refute", label=f"T-instr-reach[{M.KIND_NAMES[kind]}]")
        )
    return conds


def t_upd_conds(oracle, tier, kinds=None, timeout=600, dt_max=None):
    conds = []
    env = {"VF_ORACLE": oracle}
    if dt_max is not None:
        env["VF_DT_MAX"] = str(dt_max)
    elif tier == "thorough":
        # longer steps: up to 10 min when travelling (links are always completed), 4 min (4 curve sub-steps) when charging
        env["VF_DT_MAX"] = "600"
        env["VF_DT_MAX_CHARGE"] = "240"
        timeout = max(timeout, 900)
    for kind in (kinds if kinds is not None else range(M.N_KINDS)):
        conds.append(
            Cond("vf.h.t_upd", "t_upd", case=kind, timeout=timeout, env=dict(env),
                 label=f"T-upd[{M.KIND_NAMES[kind]}]", weight=20 if kind in (3, 7, 9, 10) else 8)
        )
        conds.append(
            Cond("vf.h.t_upd", "t_upd_reach", case=kind, timeout=60, env=dict(env), expect="refute",
                 label=f"T-upd-reach[{M.KIND_NAMES[kind]}]", weight=1)
        )
        if kind == 9:
            conds.append(
                Cond("vf.h.t_upd", "t_upd", case=kind + 16, timeout=timeout, env=dict(env),
                     label=f"T-upd[{M.KIND_NAMES[kind]},zero-length trip]", weight=20)
            )
    return conds

T_BOUNDS = [
    "T-instr: 1 modelled vehicle; 13 previous activities x 18 instructions (incl. a pooling dispatch over two requests, once in a world whose requests forbid pooling and once where they allow it); cells = both targets + one unrelated cell; plugs {LEVEL_2, DCFC, not installed, gas pump}; "
    "membership scenarios {all public, vehicle f1 / targets f2, vehicle f1 / targets f1+f2}; request record {none, this vehicle, another vehicle}; BEV and ICE",
    "T-upd: 1 modelled vehicle; energy in [0, capacity] (float, real-arithmetic model); step length 1..300 s (1..150 s for charging activities) in the quick tier, 1..600 s (1..240 s) in the thorough tier; "
    "single-link haversine routes of 0.4-2 km at 40 km/h; price in [0, 10]; arena BEV uses hive's TabularPowercurve with a 4-point table",
]
T_OUTSIDE = [
    "custom Instruction / VehicleState subclasses",
    "which h3 cell an interpolated point falls in (C library): solver-chosen among cells on the link",
    "IEEE rounding (floats modelled as reals; counterexamples are replayed under IEEE with 1e-9 tolerance)",
    "multi-link routes in T-upd (covered by the traversal harnesses of C06)",
]
STUBS_UPD = [
    "h3.geo_to_h3 on a symbolic coordinate (inside H3Ops.point_along_link) returns a solver-chosen cell on the link (H3Shim)",
    "np.interp replaced by an equivalent pure-Python piecewise-linear model (NpShim), cross-checked against numpy",
    "SimulationState.sim_time carried by SymTime (SimTime subclasses int: constructing it would realise the symbolic value); time_diff on seconds-of-day",
]
