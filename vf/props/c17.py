from vf.props import common as C


def plan(tier):
    conds = C.t_instr_conds("C17", tier)
    return {
        "conds": conds,
        "min_classes": 150,
        "explanation": "C17: counter invariant I-cnt (free plugs in [0,total], total-free = vehicles charging there incl. via a base, "
                       "queue counter = vehicles queueing; stalls likewise) is preserved by one real transition from an arbitrary "
                       "INV pre-state (one-step induction).",
        "entry_points": ["step_simulation_ops.apply_instructions"],
        "bounds": C.ARENA_BOUNDS + ["1 modelled vehicle per transition; 13 previous activities x 16 instructions"],
        "outside": ["stations removed mid-run", "custom Instruction subclasses"],
        "stubs": C.STUBS_COMMON,
        "assumptions": ["pre-state satisfies INV (DESIGN 3.2)"],
    }
