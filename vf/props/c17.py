from vf.props import common as C


def plan(tier):
    conds = []
    conds += C.t_instr_conds("C17", tier)
    conds += C.t_upd_conds("C17", tier)
    from vf.props.c12 import match_conds
    from vf.driver import Cond
    for fc in (0, 2):
        conds.append(Cond("vf.h.h_disp", "h_elig", case=fc, timeout=600, env={"VF_ORACLE": "C17"}, label=f"H17-assigned-skipped[fleetcfg={fc}]", weight=20))
    conds += match_conds("h_step_disp", "C17", tier, "H17-stepdisp", fcases=(0,) if tier == "quick" else (0, 1, 2, 3))
    return {
        "conds": conds,
        "min_classes": 150,
        "explanation": 'C17: I-req (a request that records a modelled dispatched vehicle => that vehicle is in DispatchTrip to it) is re-established by every instruction and every vehicle update, incl. the out-of-energy path.',
        "entry_points": ['step_simulation_ops.apply_instructions', 'step_simulation_ops.step_vehicle (VehicleState.update -> default_update -> move/charge/idle/pick_up_trip/drop_off_trip)'],
        "bounds": C.ARENA_BOUNDS + C.T_BOUNDS,
        "outside": C.T_OUTSIDE,
        "stubs": C.STUBS_COMMON + C.STUBS_UPD,
        "assumptions": ["pre-state satisfies INV (DESIGN 3.2); INV base case is the loader's initial state"],
    }
