from vf.driver import Cond
from vf.props import common as C


def match_conds(fn, oracle, tier, label, fcases=None, timeout=600):
    conds = []
    fcs = fcases if fcases is not None else ((0, 3) if tier == "quick" else (0, 1, 2, 3))
    for fc in fcs:
        for c0 in range(4):
            for e0 in range(2):
                conds.append(Cond("vf.h.h_disp", fn, case=fc * 8 + c0 * 2 + e0, timeout=timeout, env={"VF_ORACLE": oracle},
                                  label=f"{label}[fleets={fc},v0cell={c0},v0elig={e0}]", weight=10 if fn == "h_match" else 15))
    return conds


def plan(tier):
    conds = []
    for fc in range(3):
        conds.append(Cond("vf.h.h_disp", "h_elig", case=fc, timeout=600, env={"VF_ORACLE": "C12"}, label=f"H12-elig[fleetcfg={fc}]", weight=20))
    conds.append(Cond("vf.h.h_disp", "h_elig", case=0, timeout=600, env={"VF_ORACLE": "C12", "VF_THRESH": "swap"}, label="H12-elig[fleetcfg=0,base threshold below matching threshold]", weight=20))
    conds += match_conds("h_match", "C12", tier, "H12-match")
    for c in match_conds("h_match", "C12", tier, "H12-match-after-earlier-run", fcases=(0,) if tier == "quick" else (0, 3)):
        c.env["VF_WARM"] = "1"
        conds.append(c)
    return {
        "conds": conds,
        "min_classes": 100,
        "explanation": "C12: real Dispatcher.generate_instructions (with the real find_assignment / scipy linear_sum_assignment on a per-path concrete cost table). "
                       "H12-elig: one vehicle, one request: paired iff activity is dispatchable, driver on shift, remaining range above the matching threshold (and above the base threshold when "
                       "charging at a base), a shared fleet exists and the request has no vehicle assigned. H12-match: three vehicles x up to three requests: per fleet the pairs are within "
                       "eligible x waiting, injective both ways, min(|E|,|R|) many and of minimum total h3 grid distance (brute force over all injective maps). H12-match-after-earlier-run: the same after a Dispatcher run on an earlier state "
                       "in which the same vehicles and requests stood elsewhere (nothing remembered per id may leak into the judged matching).",
        "entry_points": ["Dispatcher.generate_instructions", "assignment_ops.find_assignment", "assignment_ops.h3_distance_cost", "SimulationState.get_vehicles/get_requests"],
        "bounds": ["H12-elig: 7 activities x 3 driver kinds x energy in [0,50] kWh (symbolic vs. both range thresholds) x 5 vehicle memberships x 3 request memberships x assigned/free; fleets {}, {f1}, {f1,f2}",
                   "H12-match: 3 vehicles (cells v0 in {A,B,D,E}, v1 in {A,D}, v10 at B; each eligible or not), requests r0@C, r1 in {absent,C,D}, r2 in {absent,D,F}; value of r0 in 4..6 (sort order); "
                   "fleets none / {f1,f2} with v0 in f1, f2 or both (quick: none and both)"],
        "outside": ["arbitrary geography and problem sizes > 3x3: numpy/scipy/h3_distance are C, cost tables are concrete per path",
                    "the 'infinite cost replaced by upper bound' branch of find_assignment (dead for h3_distance_cost)",
                    "a vehicle without any membership under configured fleets (C10 known finding F15)"],
        "stubs": C.STUBS_COMMON,
        "assumptions": [],
    }
