from vf.driver import Cond
from vf.props import common as C


def plan(tier):
    conds = [
        Cond("vf.h.h_clock", "h_tick", case=0, timeout=200, label="H15-tick", weight=2),
        Cond("vf.h.h_clock", "h_run", case=0, timeout=200, label="H15-run", weight=1),
        Cond("vf.h.h_clock", "h_split", case=5, timeout=1200, label="H15-split[1+1]", weight=50),
        Cond("vf.h.h_clock", "h_split", case=21, timeout=1200, label="H15-split[1+1,dispatcher-first]", weight=50),
    ]
    if tier == "thorough":
        for a, b in ((0, 1), (0, 2), (1, 0), (2, 0), (1, 2), (2, 1), (0, 3), (3, 0)):
            conds.append(Cond("vf.h.h_clock", "h_split", case=a * 4 + b, timeout=3000, label=f"H15-split[{a}+{b}]", weight=60 * (a + b)))
            conds.append(Cond("vf.h.h_clock", "h_split", case=16 + a * 4 + b, timeout=3000, label=f"H15-split[{a}+{b},dispatcher-first]", weight=60 * (a + b)))
    return {
        "conds": conds,
        "min_classes": 8,
        "explanation": "C15: real tick / Update.apply_update advance the clock by exactly dt for symbolic clock and step; real LocalSimulationRunner.run performs n updates "
                       "with (n-1)*dt < end-start <= n*dt and step() refuses iff sim_time >= end_time; real hive_cosim.crank(a) then crank(b) gives the same states (modulo instance ids) "
                       "and the same per-step event lists as crank(a+b) and as LocalSimulationRunner.run, on a payload carrying the real request reader (2 rows, symbolic times), "
                       "CancelRequests and StepSimulation with the built-in ChargingFleetManager + Dispatcher.",
        "entry_points": ["simulation_state_ops.tick", "Update.apply_update", "LocalSimulationRunner.run", "LocalSimulationRunner.step", "hive_cosim.crank", "StepSimulation.update"],
        "bounds": ["tick: clock < 2e9, dt 1..3600", "run: (end-start) <= 4*dt, dt <= 20", "split: a+b <= 2 (quick) / <= 3 (thorough); dt 30..120 s; 2 request rows; 1 vehicle, energy 1..50 kWh; generator order both ways; a stateful third generator; generators re-injected through runner_payload_ops between the two calls"],
        "outside": ["handlers flushing to files, tqdm, lazy readers, scenarios loaded from disk (I/O)"],
        "stubs": C.STUBS_COMMON + C.STUBS_UPD + ["tqdm replaced by the identity"],
        "assumptions": [],
    }
