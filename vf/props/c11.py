from vf.driver import Cond
from vf.props import common as C


def plan(tier):
    conds = []
    for case in range(18):
        hp, nu, nw = case // 9, (case // 3) % 3, case % 3
        conds.append(Cond("vf.h.h_req", "h_step", case=case, timeout=300, label=f"H11-step[hist={hp},unread={nu},waiting={nw}]", weight=1 + nu * nw * 3))
    conds.append(Cond("vf.h.h_req", "h_step_reach", case=16, timeout=60, expect="refute", label="H11-step-reach"))
    conds.append(Cond("vf.h.h_req", "h_price", case=0, timeout=400, label="H11-price[station ids]", weight=20))
    conds.append(Cond("vf.h.h_req", "h_price", case=1, timeout=400, label="H11-price[geoids]", weight=20))
    return {
        "conds": conds,
        "min_classes": 20,
        "explanation": "C11: one inductive step of the real request pipeline (DictReaderStepper/DictReaderIterator -> update_requests_from_iterator -> Request.from_row -> "
                       "add_request_safe, then CancelRequests) from an arbitrary reader position: admitted == exactly the pending rows with departure < T that are not yet "
                       "expired (one ADD event each, in file order), cancelled == exactly the waiting requests with T >= departure + timeout (one CANCEL event each), the first "
                       "row with departure >= T becomes the remembered row and nothing behind it is consumed. With the uniform clock (C15) this gives 'first step after departure' "
                       "for files and runs of any length. One inductive step of the real ChargingPriceUpdate.update: afterwards every (station, plug) price equals the price of the "
                       "last consumed row naming it by id / enclosing geoid, every other price is unchanged, and the call returns normally.",
        "entry_points": ["UpdateRequestsFromFile.update", "update_requests_from_iterator", "DictReaderIterator.__next__", "CancelRequests.update",
                         "ChargingPriceUpdate.update", "_map_to_station_ids", "_add_row_to_this_update", "Station.update_prices"],
        "bounds": ["reader: optional remembered row + <= 2 unread rows with non-decreasing symbolic times (ties allowed); <= 2 waiting requests; clock, timeout unbounded (< 2e9)",
                   "prices: <= 2 pending rows; keys {s0, s1, s2, unknown id} or geoids {search cell of s0+s2, finer cell holding s0 only, coarser cell, empty region}; plugs {LEVEL_2, DCFC}; "
                   "3 stations; two different regions naming one station are outside the oracle (ambiguous in the statement)"],
        "outside": ["CSV parsing and SimTime.build of ISO strings (symbolic datetime parsing)", "lazy file reading (I/O)", "unsorted files (precondition of the property)"],
        "stubs": C.STUBS_COMMON + ["Request.from_row's SimTime.build and the stepper's parser are the identity into SymTime (epoch seconds contract)",
                                   "rows are dicts whose time field is a symbolic int and whose price field is a symbolic float (float(x) is the identity on floats)"],
        "assumptions": ["reader invariant: pending rows have time >= previous clock (re-established by the step: checked)"],
    }
