"""Per-property registration data used to generate MANIFEST.json (tools/gen_manifest.py)."""

TECH = "bounded symbolic execution of the real Python functions (CrossHair 0.0.110 + z3 5.1), every path SMT-decided, search tree exhausted"

CLAIMED = {}
NOT_APPLICABLE = {}


def claim(pid, text, note, design, technique=TECH):
    CLAIMED[pid] = dict(text=text, note=note, design=design, technique=technique)


claim(
    "C02",
    "One-step induction: from an arbitrary state satisfying the representation invariant (symbolic unbounded counters, ghost occupants for "
    "unmodelled vehicles, any previous activity, any instruction) one real transition (apply_instructions / step_vehicle / "
    "perform_vehicle_state_updates / counter primitives) re-establishes the counter invariant. The solver decides every path; bounded by the arena.",
    "Trusted: CrossHair's symbolic semantics of Python and z3; INV is the right strengthening (base case checked concretely); arena bounds (DESIGN 3.1).",
    "4/C02",
)
