"""Per-property registration data used to generate MANIFEST.json (tools/gen_manifest.py)."""

TECH = "bounded symbolic execution of the real Python functions (CrossHair 0.0.110 + z3 5.1), every path SMT-decided, search tree exhausted"

CLAIMED = {}
NOT_APPLICABLE = {}


def claim(pid, text, note, design, technique=TECH):
    CLAIMED[pid] = dict(text=text, note=note, design=design, technique=technique)


claim(
    "C02",
    "One-step induction: from an arbitrary state satisfying the representation invariant (symbolic unbounded counters, ghost occupants for "
    "unmodelled vehicles, any previous activity, any instruction) one real transition (apply_instructions / step_vehicle / "
    "perform_vehicle_state_updates / counter primitives) re-establishes the counter invariant. The solver decides every path; bounded by the arena.",
    "Trusted: CrossHair's symbolic semantics of Python and z3; INV is the right strengthening (base case checked concretely); arena bounds (DESIGN 3.1).",
    "4/C02",
)

_NOTE = ("Trusted: CrossHair's symbolic semantics of Python and z3; the representation invariant INV (DESIGN 3.2) is the right strengthening; "
         "arena bounds and stubs listed in the evidence file; floats modelled as reals.")

claim("C03", "One-step induction over request status: the real vehicle update (arrival, pickup, first leg, drop-off, out-of-energy) and the real instruction "
      "application are executed from arbitrary INV pre-states; the solver decides that status changes only waiting->onboard (one pickup event, fare once, at the origin), "
      "onboard->done (one drop-off at the destination by the carrying vehicle), that instructions never resolve/lose a request or divert a loaded vehicle; "
      "cancellation/admission covered by the C11 reader harness.", _NOTE + " Pooling activities are outside the claim.", "4/C03")
claim("C05", "Per-step conservation decided over all paths of the real charge()/pick_up_trip()/instruction code with symbolic energy, price, balances and counters: "
      "energy gained == energy dispensed at the charging station, payment sent == received == tariff x energy, fares == request value, instructions move nothing.", _NOTE, "4/C05")
claim("C07", "One-step induction: I-loc (stationary activity => at the target's cell; travelling route starts at the vehicle and ends at the target; pickup at origin, drop-off at destination) "
      "is re-established by every instruction (13 activities x 18 instructions) and by every vehicle update, decided by the solver on the real code.", _NOTE, "4/C07")
claim("C09", "For each of 13 previous activities x 18 instructions with symbolic counters/places/memberships/request records the real apply_instructions either yields the instructed "
      "activity with its side effects and an exact frame (nothing but vehicle and old/new targets changes) or a state structurally equal to the pre-state (deep comparison, instance ids included); "
      "plus two-instruction independence and generator/driver precedence harnesses.", _NOTE, "4/C09")
claim("C10", "One-step induction: after any instruction / default transition the activity's target grants access to the vehicle, over the 5x5 grid of vehicle x target memberships "
      "(public, f1, f2, both, foreign private; the second station carries a different membership); direct entry into a pooling dispatch over two requests (5x5x5 grid); the built-in Dispatcher (emitted pairs, and a whole step) and the built-in ChargingFleetManager (two vehicles incl. on one cell, two stations, both search types) never cross fleets.", _NOTE, "4/C10")
claim("C16", "Persistence as a frame condition of every transition harness: a deep snapshot (taken outside tracing, leaves by reference) of the retained pre-state object equals its snapshot after the call, "
      "and the same transition applied twice from it gives equal results modulo instance ids; plus a saved payload stepped twice (autonomous and human driver, random draws solver-chosen) and two consecutive index operations with the state between them kept.", _NOTE, "4/C16")
claim("C17", "One-step induction: 'a waiting request that records a modelled vehicle => that vehicle is in DispatchTrip to it' is re-established by every instruction and every vehicle update "
      "including the out-of-energy path and arrival; dispatcher harness for at-most-one vehicle per request.", _NOTE, "4/C17")

claim("C08", "One-step induction on the index maps: one real add/modify/remove/pop from an arbitrary index-consistent pre-state (indexes computed independently by the harness) "
      "yields index maps that are exactly the images of the entity maps; vehicle moves/pickups likewise (T-upd); stations/bases cannot move.", _NOTE, "4/C08")
claim("C11", "One inductive step of the real reader/admission/cancellation pipeline and of the real price update with symbolic clock, timeout, row times, keys and prices "
      "(reader positioned arbitrarily); the solver decides exactly-once admission at the first step after departure, expiry, cancellation at departure+timeout, price application to exactly the named stations.",
      _NOTE + " String parsing of timestamps is outside the claim.", "4/C11")
claim("C15", "Real tick/apply_update/runner/crank executed symbolically: uniform clock, exact number of runner steps, step() refusal, and split-vs-whole equality of states and events for a+b<=2 (quick) / <=3 (thorough).",
      _NOTE + " File handlers and I/O are outside the claim.", "4/C15")

claim("C12", "Real Dispatcher.generate_instructions executed symbolically over eligibility attributes (activity, shift, energy vs thresholds, memberships, assignment) and over placements from a finite cell set; "
      "the emitted pairs are checked per path against an independent eligibility predicate and a brute-force minimum-cost injective matching.", _NOTE + " numpy/scipy/h3 run for real on per-path concrete cost tables: optimality is decided for the stated finite placements and sizes <= 3x3 only.", "4/C12")
claim("C18", "Real perform_vehicle_state_updates with three modelled vehicles in symbolic roles on one plug type (symbolic enqueue times, plugs, ghosts; queue members ordinary / nearly full / empty battery / fleet member): FIFO among modelled queue members and exact counters, all paths.", _NOTE, "4/C18")
claim("C20", "Real time_in_range, the real schedule closure with symbolic shift bounds, real perform_driver_state_updates with symbolic shifts/availability, and the real Dispatcher with symbolic driver kind: "
      "availability <=> in shift at the step's start time (any epoch second, wrap-around, empty shift), one event per flip, no pairing of off-shift drivers.", _NOTE + " HH:MM:SS parsing is outside the claim.", "4/C20")

claim("C13", "Real OSMRoadNetwork/route on bounded in-memory graphs with symbolic edge lengths and positions at link ends and interiors: connectivity/end-point oracle on every path; "
      "same-link and adjacent-link pairs included; haversine routes and a finite snapping set.", _NOTE + " Snapping has no symbolic content (finite enumeration).", "4/C13")
claim("C14", "Real OSMRoadNetwork.__init__ + route (networkx A*) with symbolic edge lengths and finite speed profiles: the returned inner route is a connected path between the two junctions and no slower than any simple path, for every length assignment "
      "within the bounds; searches exhausted.", _NOTE + " Bounded graphs (4 junctions), finite speed sets; Denver graph outside.", "4/C14")

claim("C01", "Order-independence decided per order-sensitive site: the unordered container is replaced by a view with a solver-chosen iteration order and the real function is run under two orders on the same symbolic state "
      "(both charger rankings incl. Maps built inside the function, nearest-entity ring and same-cell id set, price keys, the generator Map around a re-injection, the vehicle Map in the update pass, end-to-end StepSimulation.update with fleet and plug sets permuted); an AST inventory of unordered iterations is regenerated and classified on every run.",
      _NOTE + " Whole-scenario runs through file handlers are outside the claim; sites classified insensitive by form are a syntactic argument.", "4/C01")
claim("C04", "One-step ledger/physics laws decided on the real vehicle update (T-upd), on the six mechatronics kernels with symbolic vehicle definitions, and on a z3 encoding generated from the AST of TabularPowercurve.charge "
      "(loop-invariant form for any duration + unrolled form with unwinding obligations and translation validation).", _NOTE, "4/C04",
      technique=TECH + "; plus direct z3 encoding generated from the function's AST (py2smt) for the charge-curve loop")
claim("C06", "Real traverse_up_to / traverse / move executed symbolically (symbolic lengths, times, finite speed set, solver-chosen split cell): split/merge, junction, whole-second and distance laws on 1- and 2-link routes, "
      "plus the per-step movement oracle on the vehicle update.", _NOTE + " Cell geometry (h3) is by contract.", "4/C06")
claim("C19", "Event/state agreement decided on the real vehicle update and on the real report builders / StatsHandler with symbolic amounts, times and counts, at the level of Report objects.",
      _NOTE + " Written log files and their parsing are outside the claim (I/O).", "4/C19")
