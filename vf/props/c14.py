from vf.driver import Cond
from vf.props import common as C


def osm_conds(fn, tier, label, timeout=900):
    conds = []
    graphs = (0, 1)
    n_pairs = 9 if tier == "quick" else 16  # (pair 8: both positions on one link)
    for g in graphs:
        for p in range(n_pairs):
            conds.append(Cond("vf.h.h_osm", fn, case=g * 16 + p, timeout=timeout, env={"VF_SPEEDS": tier},
                              label=f"{label}[graph={g},pair={p}]", weight=10))
    return conds


def plan(tier):
    conds = osm_conds("h_fastest", tier, "H14-fastest")
    return {
        "conds": conds,
        "min_classes": 8,
        "explanation": "C14: real OSMRoadNetwork.__init__ + route() (networkx A* inside) on two in-memory strongly connected graphs with symbolic edge lengths (>= straight-line "
                       "distance, <= 5x) and speeds from a finite profile set: the inner route's travel time is <= the minimum over all simple paths between the two junctions. "
                       "No admissibility is assumed: the heuristic (node cells, heuristic speed) is computed by hive from the symbolic attributes.",
        "entry_points": ["OSMRoadNetwork.__init__", "OSMRoadNetwork.route", "networkx.astar_path", "osm_roadnetwork_ops.route_from_nx_path", "resolve_route_src_dst_positions",
                         "OSMRoadNetworkLinkHelper.build"],
        "bounds": ["graphs: 4-junction diamond with chords (9 links), one-way ring with two-way shortcut (6 links); junctions ~150 m apart",
                   "4 symbolic edge lengths per graph (int metres, gc+2 .. 5x); speed profiles quick {20,100,60} mixes (4) / thorough {10,40,65,120} mixes (6); other links 40 km/h",
                   "origin/destination link pairs: the 8 (quick) / 16 (thorough) pairs with the most alternative inner paths, per graph"],
        "outside": ["the shipped Denver graph (12k edges)", "speeds outside the listed profiles", "links shorter than the straight-line distance between their ends (unphysical)"],
        "stubs": C.STUBS_COMMON[:1] + ["networkx warmed up once outside tracing (it compiles decorated functions with exec)"],
        "assumptions": ["edge length >= great-circle distance between its end cells (+2 m)"],
    }
