from vf.driver import Cond
from vf.props import common as C


def plan(tier):
    roles = ("charging", "charging-full", "queueing", "idle", "arriving", "queueing-nearly-full")
    conds = [Cond("vf.h.h_queue", "h_fifo", case=r, timeout=900, env={"VF_ORACLE": "C18"}, label=f"H18-fifo[v0 {roles[r]}]", weight=30) for r in range(6)]
    conds.append(Cond("vf.h.h_queue", "h_fifo_reach", case=1, timeout=100, expect="refute", env={"VF_ORACLE": "C18"}, label="H18-reach"))
    if tier == "thorough":
        conds += [Cond("vf.h.h_queue", "h_fifo", case=r, timeout=900, env={"VF_ORACLE": "C02"}, label=f"H18-counters[v0 {roles[r]}]", weight=30) for r in range(6)]
    return {
        "conds": conds,
        "min_classes": 40,
        "explanation": "C18: real perform_vehicle_state_updates with three modelled vehicles on LEVEL_2@s0, each in a symbolic role (charging, charging+full, queueing with "
                       "symbolic enqueue time, idle, arriving), symbolic installed plugs and ghost chargers/queue members: no modelled vehicle leaves the queue to charge while a "
                       "modelled vehicle that joined strictly earlier (ties: smaller id; ids v0 < v1 < v10 lexicographically) still queues, whatever order SimulationState.vehicles yields its values in (solver-chosen permutation); counters stay exact.",
        "entry_points": ["step_simulation_ops.perform_vehicle_state_updates", "_sort_by_vehicle_state", "ChargeQueueing.update", "ChargingStation.update", "DispatchStation.update"],
        "bounds": ["3 modelled vehicles, 6 roles each; enqueue times in [0, 1e5] s (spans a midnight); plugs/ghosts unbounded; dt = 60 s"],
        "outside": ["ghost queue members are not observed by the oracle", "controllers that explicitly instruct a queued vehicle to charge"],
        "stubs": C.STUBS_COMMON + C.STUBS_UPD[1:],
        "assumptions": ["pre-state satisfies the counter invariant"],
    }
