from vf.driver import Cond
from vf.props import common as C


def plan(tier):
    roles = ("charging", "charging-full", "queueing", "idle", "arriving", "queueing-nearly-full", "queueing-empty-battery", "queueing-fleet-f1")
    env = {"VF_ORACLE": "C18"}
    if tier == "quick":
        env["VF_ROLESET"] = "1,2,5,6,7"  # v1 / v10: a vehicle that frees its plug this step, and the four kinds of queue member
    conds = [Cond("vf.h.h_queue", "h_fifo", case=r, timeout=1800, env=dict(env), label=f"H18-fifo[v0 {roles[r]}]", weight=30) for r in range(8)]
    conds.append(Cond("vf.h.h_queue", "h_fifo_reach", case=1, timeout=100, expect="refute", env={"VF_ORACLE": "C18"}, label="H18-reach"))
    if tier == "thorough":
        conds += [Cond("vf.h.h_queue", "h_fifo", case=r, timeout=1800, env={"VF_ORACLE": "C02"}, label=f"H18-counters[v0 {roles[r]}]", weight=30) for r in range(8)]
    return {
        "conds": conds,
        "min_classes": 40,
        "explanation": "C18: real perform_vehicle_state_updates with three modelled vehicles on LEVEL_2@s0, each in a symbolic role (charging, charging+full, queueing with "
                       "symbolic enqueue time -- also with a battery inside the 'full' tolerance, with a battery drained to exactly 0 kWh, or belonging to fleet f1 at the public station --, idle, arriving), symbolic installed plugs and ghost chargers/queue members: no modelled vehicle leaves the queue to charge while a "
                       "modelled vehicle that joined strictly earlier (ties: smaller id; ids v0 < v1 < v10 lexicographically) still queues, whatever order SimulationState.vehicles yields its values in (solver-chosen permutation); counters stay exact.",
        "entry_points": ["step_simulation_ops.perform_vehicle_state_updates", "_sort_by_vehicle_state", "ChargeQueueing.update", "ChargingStation.update", "DispatchStation.update"],
        "bounds": ["3 modelled vehicles: v0 in each of 8 roles, v1 / v10 in 5 roles (quick: leaving charger + 4 queue roles) or all 8 (thorough); enqueue times in [0, 1e5] s (spans a midnight); plugs/ghosts unbounded; dt = 60 s"],
        "outside": ["ghost queue members are not observed by the oracle", "controllers that explicitly instruct a queued vehicle to charge"],
        "stubs": C.STUBS_COMMON + C.STUBS_UPD[1:],
        "assumptions": ["pre-state satisfies the counter invariant"],
    }
