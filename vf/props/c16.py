from vf.props import common as C


def plan(tier):
    conds = []
    conds += C.t_instr_conds("C16", tier)
    conds += C.t_upd_conds("C16", tier)
    from vf.driver import Cond
    conds.append(Cond("vf.h.h_clock", "h_restep", case=0, timeout=600, label="H16-restep-saved-payload", weight=20))
    conds.append(Cond("vf.h.h_clock", "h_restep_human", case=0, timeout=600, label="H16-restep-human-driver", weight=5))
    conds.append(Cond("vf.h.h_shift", "h_drv", case=0, timeout=600, label="H16-shift-flip[driver update, v0 idle]", weight=20))
    conds.append(Cond("vf.h.h_shift", "h_step_shift", case=0, timeout=600, label="H16-shift-flip[step at a shift boundary]", weight=20))
    ek = ("vehicle", "request", "station", "base")
    op = ("add", "modify", "remove")
    for k in range(4):
        for o in range(3):
            conds.append(Cond("vf.h.h_idx", "h_idx2", case=k * 4 + o, timeout=600, label=f"H16-two-ops[{ek[k]}.{op[o]} then any]", weight=15))
    return {
        "conds": conds,
        "min_classes": 150,
        "explanation": 'C16: a retained pre-state object is structurally identical (deep snapshot incl. instance ids) after the transition, and applying the same transition twice from it gives equal results modulo instance ids. H16-restep: a saved payload (state + controller objects returned by a real step) is stepped twice through the real Update.apply_update: equal results, check-point unchanged. H16-restep-human-driver: the same with a human driver who relocates on his own (two equally dense request cells), every random draw reachable from nrel.hive module globals being a solver-chosen value. H16-shift-flip: the driver-state update of two human drivers at / around a shift boundary (and a whole step there) leaves the state it started from unchanged. H16-two-ops: two consecutive simulation_state_ops operations (add / modify / remove of a vehicle, request, station or base); the state kept between them and the initial state read the same afterwards, and the second operation repeated from the kept state gives an equal result.',
        "entry_points": ['simulation_state_ops.{add,modify,remove}_{vehicle,request,station,base}_safe', 'DictOps.add_to_collection_dict/remove_from_collection_dict', 'HumanAvailable.generate_instruction / human_look_for_requests', 'step_simulation_ops.perform_driver_state_updates (DriverState.update, Vehicle.modify_driver_state)', 'step_simulation_ops.apply_instructions', 'step_simulation_ops.step_vehicle (VehicleState.update -> default_update -> move/charge/idle/pick_up_trip/drop_off_trip)'],
        "bounds": C.ARENA_BOUNDS + C.T_BOUNDS,
        "outside": C.T_OUTSIDE,
        "stubs": C.STUBS_COMMON + C.STUBS_UPD + ["SymRandom: the random module / random.Random instances held in nrel.hive module globals return fresh solver-chosen draws (no such global exists in the pinned tree)"],
        "assumptions": ["pre-state satisfies INV (DESIGN 3.2); INV base case is the loader's initial state"],
    }
