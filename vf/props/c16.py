from vf.props import common as C


def plan(tier):
    conds = []
    conds += C.t_instr_conds("C16", tier)
    conds += C.t_upd_conds("C16", tier)
    from vf.driver import Cond
    conds.append(Cond("vf.h.h_clock", "h_restep", case=0, timeout=600, label="H16-restep-saved-payload", weight=20))
    return {
        "conds": conds,
        "min_classes": 150,
        "explanation": 'C16: a retained pre-state object is structurally identical (deep snapshot incl. instance ids) after the transition, and applying the same transition twice from it gives equal results modulo instance ids. H16-restep: a saved payload (state + controller objects returned by a real step) is stepped twice through the real Update.apply_update: equal results, check-point unchanged.',
        "entry_points": ['step_simulation_ops.apply_instructions', 'step_simulation_ops.step_vehicle (VehicleState.update -> default_update -> move/charge/idle/pick_up_trip/drop_off_trip)'],
        "bounds": C.ARENA_BOUNDS + C.T_BOUNDS,
        "outside": C.T_OUTSIDE,
        "stubs": C.STUBS_COMMON + C.STUBS_UPD,
        "assumptions": ["pre-state satisfies INV (DESIGN 3.2); INV base case is the loader's initial state"],
    }
