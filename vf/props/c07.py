from vf.props import common as C


def plan(tier):
    conds = []
    conds += C.t_instr_conds("C07", tier)
    conds += C.t_upd_conds("C07", tier)
    from vf.driver import Cond
    conds.append(Cond("vf.h.h_misc", "h_move_deg", case=0, timeout=300, label="H07-move-degenerate-head (street-graph route from a link's end node)", weight=3))
    conds.append(Cond("vf.h.h_misc", "h_move2", case=0, timeout=300, label="H07-move-two-links", weight=3))
    return {
        "conds": conds,
        "min_classes": 150,
        "explanation": "C07: I-loc (stationary activities are at their target's cell; travelling routes start at the vehicle and end at the target; pickup only at origin, drop-off only at destination) is re-established by one real transition.",
        "entry_points": ['step_simulation_ops.apply_instructions', 'step_simulation_ops.step_vehicle (VehicleState.update -> default_update -> move/charge/idle/pick_up_trip/drop_off_trip)'],
        "bounds": C.ARENA_BOUNDS + C.T_BOUNDS,
        "outside": C.T_OUTSIDE,
        "stubs": C.STUBS_COMMON + C.STUBS_UPD,
        "assumptions": ["pre-state satisfies INV (DESIGN 3.2); INV base case is the loader's initial state"],
    }
