from vf.props import common as C


def plan(tier):
    conds = []
    conds += C.t_instr_conds("C05", tier)
    conds += C.t_upd_conds("C05", tier)
    from vf.driver import Cond
    # the tariff in force is the price of the last price row naming the station/plug (incl. a price of exactly zero)
    conds.append(Cond("vf.h.h_req", "h_price", case=0, timeout=400, label="H05-tariff[station ids]", weight=20))
    conds.append(Cond("vf.h.h_req", "h_price", case=1, timeout=400, label="H05-tariff[geoids]", weight=20))
    return {
        "conds": conds,
        "min_classes": 150,
        "explanation": 'C05: per step, energy gained by the vehicle == energy dispensed by the station it charged at, payment sent == payment received == tariff x energy, other stations untouched; fares credited == request value; instructions move no energy or money; the tariff in force after a price step is the last row naming the station and plug (H05-tariff, shared with C11).',
        "entry_points": ['step_simulation_ops.apply_instructions', 'step_simulation_ops.step_vehicle (VehicleState.update -> default_update -> move/charge/idle/pick_up_trip/drop_off_trip)'],
        "bounds": C.ARENA_BOUNDS + C.T_BOUNDS,
        "outside": C.T_OUTSIDE,
        "stubs": C.STUBS_COMMON + C.STUBS_UPD,
        "assumptions": ["pre-state satisfies INV (DESIGN 3.2); INV base case is the loader's initial state"],
    }
