from vf.props import common as C


def plan(tier):
    conds = []
    conds += C.t_instr_conds("C05", tier)
    conds += C.t_upd_conds("C05", tier)
    return {
        "conds": conds,
        "min_classes": 150,
        "explanation": 'C05: per step, energy gained by the vehicle == energy dispensed by the station it charged at, payment sent == payment received == tariff x energy, other stations untouched; fares credited == request value; instructions move no energy or money.',
        "entry_points": ['step_simulation_ops.apply_instructions', 'step_simulation_ops.step_vehicle (VehicleState.update -> default_update -> move/charge/idle/pick_up_trip/drop_off_trip)'],
        "bounds": C.ARENA_BOUNDS + C.T_BOUNDS,
        "outside": C.T_OUTSIDE,
        "stubs": C.STUBS_COMMON + C.STUBS_UPD,
        "assumptions": ["pre-state satisfies INV (DESIGN 3.2); INV base case is the loader's initial state"],
    }
