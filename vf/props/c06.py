from vf.props import common as C


def plan(tier):
    conds = []
    conds += C.t_upd_conds("C06", tier, kinds=range(11))
    return {
        "conds": conds,
        "min_classes": 20,
        "explanation": "C06: one step changes position only while travelling; odometer grows by the distance of the driven part; vehicle ends at the junction between driven and remaining part; remaining part keeps link id and destination; the point requested from the geometry lies at fraction dt*speed/(3600*length) strictly inside the link; a completed link's whole-second travel time fits in the step; arrival leaves the travelling activity at the next update.",
        "entry_points": ['step_simulation_ops.step_vehicle (VehicleState.update -> default_update -> move/charge/idle/pick_up_trip/drop_off_trip)'],
        "bounds": C.ARENA_BOUNDS + C.T_BOUNDS,
        "outside": C.T_OUTSIDE,
        "stubs": C.STUBS_COMMON + C.STUBS_UPD,
        "assumptions": ["pre-state satisfies INV (DESIGN 3.2); INV base case is the loader's initial state"],
    }
