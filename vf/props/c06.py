from vf.driver import Cond
from vf.props import common as C


def plan(tier):
    conds = C.t_upd_conds("C06", tier, kinds=range(11))
    conds.append(Cond("vf.h.h_misc", "h_link", case=0, timeout=300, label="H06-link", weight=3))
    conds.append(Cond("vf.h.h_misc", "h_fold", case=0, timeout=600, label="H06-fold", weight=8))
    conds.append(Cond("vf.h.h_misc", "h_fold_deg", case=0, timeout=300, label="H06-fold-degenerate-head", weight=3))
    conds.append(Cond("vf.h.h_misc", "h_move2", case=0, timeout=300, label="H06-move-two-links", weight=3))
    conds.append(Cond("vf.h.h_misc", "h_move_deg", case=0, timeout=300, label="H06-move-degenerate-head", weight=3))
    return {
        "conds": conds,
        "min_classes": 20,
        "explanation": "C06: H06-link: real traverse_up_to with symbolic length, speed from {1,25,40,104.6} km/h, symbolic time: full traversal iff the whole-second travel time fits, "
                       "remaining time exact; a split keeps link id/start/end, meets at the split cell and requests a point at fraction t*speed/(3600*length) < 1 of the link. "
                       "H06-fold: real traverse over two links (stale speeds in the route, ground truth from the network): driven ++ remaining == original, junctions join, whole-second "
                       "times of completed links fit, distance == sum of driven parts, nothing driven after time ran out. T-upd (C06 oracle): position changes only while travelling, "
                       "odometer grows by the driven distance, vehicle sits at the junction between driven and remaining part, arrival leaves the travelling activity at the next update. "
                       "traverse is a fold whose accumulator carries only the remaining time, so the 1- and 2-link results extend to routes of any length by induction (argument, not solver-checked).",
        "entry_points": ["linktraversal.traverse_up_to", "LinkTraversal.travel_time_seconds", "H3Ops.point_along_link", "routetraversal.traverse", "vehicle_state_ops.move", "VehicleState.default_update"],
        "bounds": ["link length 1 m .. 50 km (symbolic), speeds {1, 25, 40, 104.6} km/h, time 0..7200 s", "routes of 1 and 2 links (incl. a zero-length head link); real move() over a two-link route with the step ending on either link, at the node or at the end"] + C.T_BOUNDS[1:],
        "outside": ["which h3 cell the interpolated point falls in (C library; solver-chosen among cells on the link)", "progress at cell granularity (geometry)",
                    "great-circle vs. road length of OSM links", "pooling activities"],
        "stubs": C.STUBS_COMMON + C.STUBS_UPD + ["units.int (inside hours_to_seconds) calls RealBasedSymbolicFloat.__int__ directly: CrossHair's patched int() would realise the float"],
        "assumptions": ["pre-state satisfies INV"],
    }
