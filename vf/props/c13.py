from vf.driver import Cond
from vf.props import common as C
from vf.props.c14 import osm_conds


def plan(tier):
    conds = osm_conds("h_connected", tier, "H13-connected", timeout=1200)
    conds.append(Cond("vf.h.h_osm", "h_snap", case=0, timeout=300, label="H13-snap[graph 0]", weight=3))
    conds.append(Cond("vf.h.h_osm", "h_snap", case=16, timeout=300, label="H13-snap[graph 1]", weight=3))
    conds.append(Cond("vf.h.h_osm", "h_snap", case=32, timeout=300, label="H13-snap[graph 2: parallel edges]", weight=3))
    for p in range(4):
        conds.append(Cond("vf.h.h_osm", "h_connected", case=32 + p, timeout=1200, env={"VF_SPEEDS": tier}, label=f"H13-connected[graph=2,pair={p}]", weight=10))
    for case in (0, 1, 5, 7, 16, 17):
        conds.append(Cond("vf.h.h_osm", "h_connected_warm", case=case, timeout=1200, env={"VF_SPEEDS": tier},
                          label=f"H13-connected-after-earlier-query[graph={case // 16},pair={case % 16}]", weight=12))
    conds.append(Cond("vf.h.h_osm", "h_hav", case=0, timeout=300, label="H13-haversine", weight=3))
    return {
        "conds": conds,
        "min_classes": 20,
        "explanation": "C13: on the same graphs as C14 (symbolic lengths, speed profiles, so the solver decides which path A* returns) with origin/destination at the start, middle and end "
                       "of their links: the route is non-empty unless the positions coincide, starts at the origin cell, ends at the destination cell, consecutive links join end to "
                       "start, every link exists, first/last links are the origin/destination links. Haversine network: single link, empty iff equal, link ids invert. "
                       "Snapping: returned cell lies on the returned link (finite candidate set, enumeration by forking -- weaker than the rest).",
        "entry_points": ["OSMRoadNetwork.route", "osm_roadnetwork_ops.resolve_route_src_dst_positions", "route_from_nx_path", "RoadNetwork.position_from_geoid",
                         "OSMRoadNetworkLinkHelper.link_by_geoid", "HaversineRoadNetwork.route", "HaversineRoadNetwork.link_from_link_id"],
        "bounds": ["as C14; positions: start / middle / end cell of the origin and destination link", "snapping: up to 48 candidate cells per graph (start/middle/end of every link, beside links, 40 rings away)",
                   "haversine: the 6 arena cells"],
        "outside": ["snapping for arbitrary locations and the shipped Denver graph (cKDTree and h3 are C: no symbolic content)"],
        "stubs": C.STUBS_COMMON[:1],
        "assumptions": ["edge length >= great-circle distance between its end cells (+2 m)"],
    }
