from vf.props import common as C


def plan(tier):
    conds = []
    conds += C.t_instr_conds("C09", tier)
    from vf.driver import Cond
    kinds = ("Idle", "ChargingStation", "ReserveBase", "DispatchTrip")
    for case in range(16):
        if case == 15:
            continue
        conds.append(Cond("vf.h.h_instr2", "h_other", case=case, timeout=600, label=f"H09-other[v0 {kinds[case // 4]}, v1 {kinds[case % 4]}]", weight=8))
    conds.append(Cond("vf.h.h_instr2", "h_prec", case=0, timeout=900, label="H09-precedence", weight=40))
    for k in (1, 2, 3):
        conds.append(Cond("vf.h.h_instr2", "h_prec", case=k, timeout=900, label=f"H09-precedence[generator {k} re-injected]", weight=40))
    return {
        "conds": conds,
        "min_classes": 150,
        "explanation": 'C09: an applied instruction either puts the vehicle into the instructed activity with its side effects (counters, request record, applied_instructions) touching nothing but the vehicle and its old/new targets, or leaves the whole simulation state structurally unchanged. H09-other: two instructions in one call, one rejected: the joint result equals the accepted one alone. H09-precedence: real StepSimulation.update with three stub generators emitting symbolic instructions and the driver of the vehicle: exactly one instruction is logged and applied per vehicle -- the one from the driver if it spoke, else the one from the last generator that spoke, also after one of the generators has been handed back unchanged through StepSimulation.update_instruction_generator (priority order must not move).',
        "entry_points": ['step_simulation_ops.apply_instructions', 'StepSimulation.update', 'StepSimulation.update_instruction_generator', 'instruction_generator_ops.generate_instructions', 'DictOps.add_to_stack_dict/pop_from_stack_dict', 'AutonomousAvailable.generate_instruction'],
        "bounds": C.ARENA_BOUNDS + C.T_BOUNDS,
        "outside": C.T_OUTSIDE,
        "stubs": C.STUBS_COMMON + C.STUBS_UPD,
        "assumptions": ["pre-state satisfies INV (DESIGN 3.2); INV base case is the loader's initial state"],
    }
