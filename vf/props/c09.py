from vf.props import common as C


def plan(tier):
    conds = []
    conds += C.t_instr_conds("C09", tier)
    return {
        "conds": conds,
        "min_classes": 150,
        "explanation": 'C09: an applied instruction either puts the vehicle into the instructed activity with its side effects (counters, request record, applied_instructions) touching nothing but the vehicle and its old/new targets, or leaves the whole simulation state structurally unchanged.',
        "entry_points": ['step_simulation_ops.apply_instructions'],
        "bounds": C.ARENA_BOUNDS + C.T_BOUNDS,
        "outside": C.T_OUTSIDE,
        "stubs": C.STUBS_COMMON + C.STUBS_UPD,
        "assumptions": ["pre-state satisfies INV (DESIGN 3.2); INV base case is the loader's initial state"],
    }
