from vf.props import common as C


def plan(tier):
    conds = []
    env_extra = {"VF_PIN_PLUGS": "1"} if tier == "quick" else {}
    ic = C.t_instr_conds("C10", tier, fn="t_instr_memb")
    for c in ic:
        c.env.update(env_extra)
    conds += ic
    conds += C.t_upd_conds("C10", tier)
    from vf.driver import Cond
    from vf.props.c12 import match_conds
    for fc in range(3):
        conds.append(Cond("vf.h.h_disp", "h_elig", case=fc, timeout=600, env={"VF_ORACLE": "C10"}, label=f"H10-disp[fleetcfg={fc}]", weight=20))
    for o in (0, 1):
        conds.append(Cond("vf.h.h_enter", "h_enter_pool", case=o, timeout=600, label=f"H10-enter-pooling[plan starts with r{o}]", weight=8))
    for k in range(8):
        conds.append(Cond("vf.h.h_cfm", "h_cfm", case=k, timeout=900, label=f"H10-cfm[search={k // 4},placement={k % 4}]", weight=25))
    conds.append(Cond("vf.h.h_cfm", "h_cfm_reach", case=1, timeout=300, expect="refute", label="H10-cfm-reach", weight=3))
    conds += match_conds("h_step_disp", "C10", tier, "H10-stepdisp", fcases=(3,) if tier == "quick" else (1, 2, 3))
    return {
        "conds": conds,
        "min_classes": 150,
        "explanation": "C10: after any instruction / default transition the vehicle's activity target grants access to the vehicle's membership (5x5 grid of vehicle x target memberships incl. public, two fleets, both, private; the second station s1 carries a different membership than s0). H10-enter-pooling: direct entry into DispatchPoolingTrip over two requests with a 5x5x5 membership grid: accepted only if every request of the plan admits the vehicle. H10-disp / H10-stepdisp: the built-in Dispatcher never pairs across fleets. H10-cfm: one real ChargingFleetManager.generate_instructions over two vehicles (incl. both on one cell, different fleets) and two stations with symbolic memberships, under both charging search types: every DispatchStationInstruction names a station that admits the instructed vehicle and a plug it can use.",
        "entry_points": ['step_simulation_ops.apply_instructions', 'entity_state_ops.transition_previous_to_next (DispatchPoolingTrip.enter)', 'Dispatcher.generate_instructions', 'ChargingFleetManager.generate_instructions (instruct_vehicles_to_dispatch_to_station, get_nearest_valid_station_distance, H3Ops.nearest_entity)', 'step_simulation_ops.step_vehicle (VehicleState.update -> default_update -> move/charge/idle/pick_up_trip/drop_off_trip)'],
        "bounds": C.ARENA_BOUNDS + C.T_BOUNDS,
        "outside": C.T_OUTSIDE,
        "stubs": C.STUBS_COMMON + C.STUBS_UPD,
        "assumptions": ["pre-state satisfies INV (DESIGN 3.2); INV base case is the loader's initial state"],
    }
