from vf.driver import Cond
from vf.props import common as C

EK = ("vehicle", "request", "station", "base")
OP = ("add", "modify", "remove", "pop")


def plan(tier):
    conds = []
    for ek in range(4):
        for op in range(4):
            if op == 3 and ek != 0:
                continue
            conds.append(Cond("vf.h.h_idx", "h_idx", case=ek * 4 + op, timeout=600, label=f"H08-ops[{EK[ek]}.{OP[op]}]", weight=30))
            conds.append(Cond("vf.h.h_idx", "h_idx_reach", case=ek * 4 + op, timeout=60, expect="refute", label=f"H08-reach[{EK[ek]}.{OP[op]}]"))
    for ek in range(4):
        for op in (0, 1):
            conds.append(Cond("vf.h.h_idx", "h_idx", case=ek * 4 + op, timeout=600, env={"VF_SHARED_LINK": "1", "VF_GENERIC": "1"},
                              label=f"H08-ops[{EK[ek]}.{OP[op]} via {'add' if op == 0 else 'modify'}_entities_safe, cells on one link]", weight=30))
    # index agreement is also part of INV for the vehicle transitions (moves, pickups)
    conds += C.t_upd_conds("C08", tier, kinds=(2, 7, 8, 9, 10))
    if tier == "thorough":
        conds += C.t_instr_conds("C08", tier)
    return {
        "conds": conds,
        "min_classes": 30,
        "explanation": "C08: the eight index maps are exactly the images of the four entity maps (no stale, duplicated or empty entries) after one real "
                       "add/modify/remove/pop operation from an arbitrary index-consistent pre-state (pre-state indexes computed by the harness's own image "
                       "function), and after vehicle moves / pickups (T-upd); stations and bases never change location. "
                       "The lookup API (SimulationState.at_geoid, get_*_ids) returns exactly the entities at each cell. A second set of conditions goes through the generic "
                       "add_entities_safe / modify_entities_safe (class-name dispatch + fold) with street-graph style positions: all cells on ONE link id.",
        "entry_points": ["simulation_state_ops.{add,modify,remove}_{vehicle,request,station,base}_safe", "simulation_state_ops.pop_vehicle_safe", "simulation_state_ops.add_entities_safe / modify_entities_safe (add_entity_safe, modify_entity_safe, fp.apply_op_to_accumulator)", "SimulationState.at_geoid / get_*_ids",
                         "DictOps.update_entity_dictionaries / add_to_collection_dict / remove_from_collection_dict", "step_simulation_ops.step_vehicle"],
        "bounds": ["2 entities of the kind at cells {A, E (same search cell as A), B, C}; operation names a present id or an absent one; new cell among the 4; "
                   "with / without a non-positional attribute change", "search resolution 10, location resolution 15"] + C.T_BOUNDS[1:],
        "outside": ["the h3 parent function itself (C; run for real on the concrete cells)"],
        "stubs": C.STUBS_COMMON,
        "assumptions": ["pre-state indexes are consistent (I-idx)"],
    }
