from vf.driver import Cond
from vf.props import common as C


def plan(tier):
    conds = [
        Cond("vf.h.h_order", "h_rank", case=0, timeout=600, label="H01a-ranking", weight=5),
        Cond("vf.h.h_order", "h_rank_time", case=0, timeout=600, label="H01b-ranking-by-time", weight=8),
        Cond("vf.h.h_order", "h_nearest", case=0, timeout=600, label="H01c-nearest-entity", weight=5),
        Cond("vf.h.h_req", "h_price_order", case=1, timeout=600, label="H01d-price-keys", weight=5),
    ]
    for k in (1, 2, 3):
        if k == 1:
            conds.append(Cond("vf.h.h_order", "h_look", case=0, timeout=600, label="H01h-driver-looks-for-requests", weight=5))
        conds.append(Cond("vf.h.h_instr2", "h_prec_order", case=k, timeout=900, label=f"H01g-generator-map-order[generator {k} re-injected]", weight=15))
    for r in (1, 2):
        conds.append(Cond("vf.h.h_queue", "h_fifo", case=r, timeout=1500, env={"VF_ORACLE": "C01", "VF_ROLESET": "1,2,5,7"}, label=f"H01f-update-order[v0 role {r}]", weight=40))
    for case in range(8):
        conds.append(Cond("vf.h.h_order", "h_step", case=case, timeout=900, label=f"H01e-step[v0cell={case // 2},v1cell={case % 2}]", weight=40))
    conds.append(Cond("vf.sites", "inventory", case=0, timeout=120, engine="smt", label="H01-site-inventory", weight=1))
    return {
        "conds": conds,
        "min_classes": 8,
        "explanation": "C01: a run is a composition of deterministic functions; the only process-dependent inputs are the iteration orders of hash-based containers (and uuid tags, exempt). "
                       "For every order-sensitive site the unordered container is replaced by a view whose iteration order is a solver-chosen permutation and the real function is run under two "
                       "permutations on the same symbolic state: equal results on all paths. Sites: both charger rankings over on_shift_access_chargers (in shortest_time_to_charge_ranking also every immutables.Map the function builds itself iterates in a solver-chosen order), nearest_entity over the k_ring cell set, "
                       "price keys naming one station twice, the generator Map of StepSimulation around a re-injection, the order in which SimulationState.vehicles yields its values to perform_vehicle_state_updates, and end-to-end StepSimulation.update (ChargingFleetManager + Dispatcher) with fleet set and plug set permuted. "
                       "An AST inventory of iterations over unordered containers in nrel/hive is regenerated on every run and listed (covered / insensitive by form / exempt / uncovered).",
        "entry_points": ["assignment_ops.nearest_shortest_queue_ranking", "assignment_ops.shortest_time_to_charge_ranking", "H3Ops.nearest_entity", "H3Ops.get_entities_at_cell", "StepSimulation.update_instruction_generator", "ChargingPriceUpdate.update/_map_to_station_ids", "StepSimulation.update",
                         "Dispatcher.generate_instructions", "ChargingFleetManager.generate_instructions", "instruction_generator_ops.generate_instructions"],
        "bounds": ["containers of 2-3 elements (all permutations in the solver's domain)", "ranking: 3 plug types, installed 0..3, queued 0..4", "ranking by time: 3 plug types, vehicle energy from {10, 49, 50} kWh, 0..3 steps left in the simulation (estimates capped: ties), no other vehicle at the station", "nearest: 3 stations in 3 search cells of ring 1, distances 0..3, validity bits",
                   "step: 2 vehicles (one in both fleets), 2 requests of either fleet, energy of v1 from {2, 8, 40} kWh, 4x2 placements"],
        "outside": ["whole scenarios through file handlers", "order-insensitivity of sites classified by form is a syntactic argument", "numpy/scipy tie-breaking (deterministic C code)",
                    "float summation order in SummaryStats"],
        "stubs": C.STUBS_COMMON + C.STUBS_UPD + ["PermMap stands in for immutables.Map objects constructed inside assignment_ops (module-level name `immutables` rebound)", "OrderedView stands in for set/frozenset/k_ring results (also in replay: a hash seed cannot be steered to a chosen permutation)"],
        "assumptions": ["any permutation of a small str set is realisable by some hash seed"],
    }
