"""names only (importable without hive): keep in sync with arena.py (checked there by assert)"""
KIND_NAMES = (
    "Idle", "OutOfService", "Repositioning", "ChargingStation", "ChargeQueueing", "ReserveBase", "ChargingBase",
    "DispatchStation", "DispatchBase", "DispatchTrip", "ServicingTrip", "ServicingPoolingTrip", "DispatchPoolingTrip",
)
INSTR_NAMES = (
    "Idle", "DispatchTrip", "DispatchStation", "ChargeStation", "ChargeBase", "DispatchBase", "ReserveBase",
    "OutOfService", "Reposition", "DispatchStation_s1", "ChargeStation_s1", "DispatchBase_b1", "ReserveBase_b1",
    "DispatchTrip_missing", "ChargeBase_b1", "DispatchPoolingTrip", "ChargeBase_b2", "DispatchPoolingTrip_allowed",
)
N_KINDS = len(KIND_NAMES)
N_INSTR = len(INSTR_NAMES)
