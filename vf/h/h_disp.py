"""
Dispatcher harnesses (C12; also the dispatcher clauses of C10, C17, C20).

 h_elig   real Dispatcher.generate_instructions with ONE vehicle and ONE request: the pair is emitted iff the
          vehicle is eligible by the statement's four conditions and the request is waiting, unassigned and shares
          a fleet with it.   CASE = fleet configuration: 0 no fleets, 1 {f1}, 2 {f1, f2}.
          Symbolic: activity (7 kinds), driver (autonomous / human on shift / human off shift), energy -> remaining range
          vs. the two range thresholds, vehicle membership (5), request membership (3), request already assigned or not.
 h_match  real Dispatcher.generate_instructions with THREE vehicles and up to THREE requests: per fleet the emitted pairs
          are within eligible x waiting, injective both ways, as many as the smaller side, and of minimum total grid
          distance (brute force over all injective maps).   CASE = fleets (0 / 2) * 3 + membership of v0 (f1, f2, both).
 h_step_disp  real StepSimulation.update with the Dispatcher as only generator on the h_match world: afterwards at most
          one modelled vehicle is travelling to any request, and every DispatchTrip target grants access.
"""
import itertools
import os
from dataclasses import replace

import h3
import immutables

from vf import boot
from vf.boot import note
from vf.h import arena as A
from vf.h import inv as I
from vf.h import stubs

from nrel.hive.dispatcher.instruction_generator.dispatcher import Dispatcher
from nrel.hive.dispatcher.instruction.instructions import DispatchTripInstruction
from nrel.hive.state.simulation_state import simulation_state_ops as sso
from nrel.hive.state.simulation_state.update.step_simulation import StepSimulation
from nrel.hive.state.driver_state.human_driver_state.human_driver_state import HumanAvailable, HumanUnavailable
from nrel.hive.state.driver_state.human_driver_state.human_driver_attributes import HumanDriverAttributes
from nrel.hive.model.membership import Membership
from nrel.hive.util.units import MILE_TO_KM, WH_TO_KWH

stubs.install_np_shim()
stubs.install_h3_shim()
stubs.install_time_diff_shim()

CASE = int(os.environ.get("VF_CASE", "0"))
ORACLE = os.environ.get("VF_ORACLE", "C12")

CFG = A.ENV0.config
DCFG = CFG.dispatcher._replace(valid_dispatch_states=("idle", "repositioning", "reservebase", "chargingbase"))
if os.environ.get("VF_THRESH") == "swap":
    # a configuration whose base-charging range threshold lies BELOW the matching threshold (the defaults are 100 km / 20 km):
    # both range conditions must still hold for a vehicle charging at a base
    DCFG = DCFG._replace(base_charging_range_km_threshold=10.0, matching_range_km_threshold=20.0)
FLEETS = (frozenset(), frozenset(["f1"]), frozenset(["f1", "f2"]))
ELIG_KINDS = (0, 2, 5, 6, 9, 1, 3)  # Idle, Repositioning, ReserveBase, ChargingBase, DispatchTrip, OutOfService, ChargingStation
VALID_NAMES = ("idle", "repositioning", "reservebase", "chargingbase")
REQ_MEMB = (0, 1, 2)  # public, f1, f2


def _env(fleets):
    cfg = CFG._replace(dispatcher=DCFG)
    env, rec = A.env_with_recorder(A.ENV0._replace(config=cfg, fleet_ids=fleets))
    return env, rec


def _driver(vid, d):
    if d == 0:
        return None  # autonomous (arena default)
    attr = HumanDriverAttributes(vid, "schedule0", "b0", False)
    return HumanAvailable(attr) if d == 1 else HumanUnavailable(attr)


def _range_km(e):
    return e / (A.BEV.nominal_watt_hour_per_mile * WH_TO_KWH) * MILE_TO_KM


def h_elig(kind: int, drv: int, e: float, mv: int, mr: int, assigned: bool) -> bool:
    """
    pre: 0 <= kind <= 6 and 0 <= drv <= 2 and 0 <= mv <= 4 and 0 <= mr <= 2 and 0 <= e <= 50
    post: _
    """
    return _elig_body(kind, drv, e, mv, mr, assigned)


def _elig_body(kind, drv, e, mv, mr, assigned):
    # (no contract of its own: CrossHair drops paths on which a CALLED function's postcondition fails)
    fleets = FLEETS[CASE]
    k = None
    for i in range(7):
        if kind == i:
            k = ELIG_KINDS[i]
    d = 0 if drv == 0 else (1 if drv == 1 else 2)
    m_v = A.memb_of(mv)
    m_r = 0 if mr == 0 else (1 if mr == 1 else 2)
    if k is None or m_v is None:
        return True
    # requests the loader would not have admitted (update_requests_from_iterator): a request with a fleet when no
    # fleets are configured, or a request without a fleet when fleets are configured
    if (len(fleets) == 0) != (m_r == 0):
        return True
    cell = 0 if k == 3 else (1 if k in (5, 6) else 3)
    # the arena's DispatchTrip targets r0; here the vehicle under test is busy with another request r1
    spec = A.VSpec("v0", k, cell, plug="LEVEL_2", memb=m_v, energy=e)
    w = A.build_world((spec,), 2, 0, 0, 3, 0, r0_present=False, r1_present=False)
    if w is None:
        return True
    sim = w.sim
    v = sim.vehicles["v0"]
    if k == 9:
        v = replace(v, vehicle_state=replace(v.vehicle_state, request_id="r1"))
    ds = _driver("v0", d)
    if ds is not None:
        v = replace(v, driver_state=ds)
    sim = sso.modify_vehicle_safe(sim, v).unwrap()
    req = replace(A.R0, membership=A.MEMBERSHIPS[m_r])
    is_assigned = True if assigned else False
    if is_assigned:
        req = req.assign_dispatched_vehicle("v7", A.T0)
    sim = sso.add_request_safe(sim, req).unwrap()
    env, rec = _env(fleets)
    snap0 = I.snap_sim(sim)

    gen, instrs = Dispatcher(DCFG).generate_instructions(sim, env)  # ---- real code

    pairs = [(i.vehicle_id, i.request_id) for i in instrs]
    # the statement's eligibility, written independently
    rng = _range_km(e)
    eligible = (
        A.KIND_NAMES[k].lower() in VALID_NAMES
        and d != 2
        and rng > DCFG.matching_range_km_threshold
        and not (k == 6 and rng < DCFG.base_charging_range_km_threshold)
    )
    vm = A.MEMBERSHIPS[m_v].memberships
    rm = A.MEMBERSHIPS[m_r].memberships
    if len(fleets) == 0:
        shares = True
        n_shared = 1
    else:
        # the vehicle is a member of fleet f and the request belongs to fleet f (entities without membership are open to all)
        shared = [f for f in sorted(fleets) if (len(vm) == 0 or f in vm) and (len(rm) == 0 or f in rm)]
        shares = len(shared) > 0
        n_shared = len(shared)
    expect = eligible and shares and not is_assigned
    if ORACLE == "C12" and len(fleets) > 0 and len(vm) == 0:
        return True  # whether a vehicle without membership belongs to "the fleet" is C10's question (known finding F15)
    note("elig", A.KIND_NAMES[k], ("auto", "on", "off")[d], A.MEMB_NAME[m_v], A.MEMB_NAME[m_r], "assigned" if is_assigned else "free",
         "paired" if pairs else "none")
    if not I.deq(snap0, I.snap_sim(sim)):
        return False
    if ORACLE == "C20":
        return not (pairs and d == 2)
    if ORACLE == "C17":
        # a request that already records a dispatched vehicle (whenever it was assigned, incl. at clock 0) is not offered again
        return not (pairs and is_assigned)
    if ORACLE == "C10":
        # never pair a vehicle with a request of a fleet it does not belong to
        for vid, rid in pairs:
            if not sim.requests[rid].membership.grant_access_to_membership(sim.vehicles[vid].membership):
                return False
        return True
    if expect:
        return len(pairs) >= 1 and set(pairs) == {("v0", "r0")} and len(pairs) == n_shared
    return pairs == []


def h_disp_shift(kind: int, drv: int, e: float, mv: int, mr: int, assigned: bool) -> bool:
    """
    the dispatcher never assigns a request to a driver who is off shift (run with VF_ORACLE=C20)
    pre: 0 <= kind <= 6 and 0 <= drv <= 2 and 0 <= mv <= 4 and 0 <= mr <= 2 and 0 <= e <= 50
    post: _
    """
    return _elig_body(kind, drv, e, mv, mr, assigned)


# ------------------------------------------------------------------------------------- matching
# h_match / h_step_disp: CASE = fleet case (0 no fleets, 1 v0 in f1, 2 v0 in f2, 3 v0 in both) * 8 + cell index of v0 * 2 + v0 eligible
FCASE = (CASE // 8) % 4
C0_FIXED = (CASE // 2) % 4
E0_FIXED = CASE % 2 == 1
WITH_FLEETS = FCASE > 0
M_FLEETS = FLEETS[2] if WITH_FLEETS else FLEETS[0]
V0_MEMB = (0, 1, 2, 3)[FCASE]
VIDS = ("v0", "v1", "v10")
V_CELLS = ((0, 1, 3, 4), (0, 3), (1,))  # candidate cells per vehicle
R_CELLS = ((2,), (2, 3), (3, 5))  # candidate origin cells per request
V_MEMB = (V0_MEMB, 1 if WITH_FLEETS else 0, 2 if WITH_FLEETS else 0)
RIDS = ("r0", "r1", "r2")


def _pick(i, options):
    for k in range(len(options)):
        if i == k:
            return options[k]
    return None


def _match_world(c0, c1, e0, e1, e2, p1, p2, rc1, rc2, rm0, val0):
    vc = (V_CELLS[0][C0_FIXED], _pick(c1, V_CELLS[1]), V_CELLS[2][0])
    if None in vc:
        return None
    elig = (E0_FIXED, True if e1 else False, True if e2 else False)
    sim = A.SIM0
    for i in range(3):
        spec = A.VSpec(VIDS[i], 0 if elig[i] else 1, vc[i], memb=V_MEMB[i], energy=40.0)
        st = A.make_state(spec)
        v = replace(A.base_vehicle(VIDS[i]), position=A.POS[vc[i]], vehicle_state=st, membership=A.MEMBERSHIPS[V_MEMB[i]],
                    energy=immutables.Map({A.E: 40.0}))
        sim = sso.add_vehicle_safe(sim, v).unwrap()
    present = (True, True if p1 else False, True if p2 else False)
    rcell = (2, _pick(rc1, R_CELLS[1]), _pick(rc2, R_CELLS[2]))
    if None in rcell:
        return None
    if WITH_FLEETS:
        rmemb = (1 if rm0 == 0 else 2, 1, 2)
    else:
        rmemb = (0, 0, 0)
    protos = (A.R0, A.R1, A.RB)
    for j in range(3):
        if present[j]:
            r = replace(protos[j], id=RIDS[j], position=A.POS[rcell[j]], membership=A.MEMBERSHIPS[rmemb[j]],
                        value=(val0 if j == 0 else 5))
            sim = sso.add_request_safe(sim, r).unwrap()
    return sim, elig, present


def _optimal(cost, n_v, n_r):
    """minimum total cost over all injective maps of size min(n_v, n_r)"""
    k = min(n_v, n_r)
    if k == 0:
        return 0
    best = None
    for vs in itertools.permutations(range(n_v), k):
        for rs in itertools.combinations(range(n_r), k):
            c = sum(cost[vs[t]][rs[t]] for t in range(k))
            if best is None or c < best:
                best = c
    return best


def h_match(c0: int, c1: int, e0: bool, e1: bool, e2: bool, p1: bool, p2: bool, rc1: int, rc2: int, rm0: int, val0: int) -> bool:
    """
    VF_WARM=1: the same Dispatcher first runs on an EARLIER state in which v1 and the requests r1, r2 stood elsewhere (same ids,
    other cells) -- anything remembered from that run (per id, per pair) must not influence the matching that is judged
    pre: 0 <= c0 <= 3 and 0 <= c1 <= 1 and 0 <= rc1 <= 1 and 0 <= rc2 <= 1 and 0 <= rm0 <= 1 and 4 <= val0 <= 6
    post: _
    """
    mw = _match_world(c0, c1, e0, e1, e2, p1, p2, rc1, rc2, rm0, val0)
    if mw is None:
        return True
    sim, elig, present = mw
    env, rec = _env(M_FLEETS)
    if os.environ.get("VF_WARM") == "1":
        mw0 = _match_world(c0, 1 - c1, True, True, True, True, True, 1 - rc1, 1 - rc2, rm0, val0)
        if mw0 is not None:
            env0, _ = _env(M_FLEETS)
            Dispatcher(DCFG).generate_instructions(mw0[0], env0)

    gen, instrs = Dispatcher(DCFG).generate_instructions(sim, env)  # ---- real code

    pairs = [(i.vehicle_id, i.request_id) for i in instrs]
    fleets = sorted(M_FLEETS) if len(M_FLEETS) > 0 else [None]
    remaining = list(pairs)
    total_pairs = 0
    for f in fleets:
        E = [v for k, v in enumerate(VIDS) if elig[k] and (f is None or f in sim.vehicles[v].membership.memberships)]
        R = [r for k, r in enumerate(RIDS) if present[k] and (f is None or f in sim.requests[r].membership.memberships)]
        mine = [(v, r) for (v, r) in pairs if r in R and v in E] if f is not None else list(pairs)
        # (with fleets each request belongs to exactly one fleet, so its pairs are this fleet's)
        if f is not None:
            mine = [(v, r) for (v, r) in pairs if r in R]
        for (v, r) in mine:
            if v not in E or r not in R:
                return False
        if len({v for v, _ in mine}) != len(mine) or len({r for _, r in mine}) != len(mine):
            return False
        if len(mine) != min(len(E), len(R)):
            return False
        cost = [[h3.h3_distance(sim.vehicles[v].geoid, sim.requests[r].geoid) for r in R] for v in E]
        got = sum(cost[E.index(v)][R.index(r)] for v, r in mine)
        if got != _optimal(cost, len(E), len(R)):
            return False
        total_pairs += len(mine)
    note("match", "fleets" if WITH_FLEETS else "nofleet", sum(1 for x in elig if x), sum(1 for x in present if x), len(pairs))
    return total_pairs == len(pairs)


def h_step_disp(c0: int, c1: int, e0: bool, e1: bool, e2: bool, p1: bool, p2: bool, rc1: int, rc2: int, rm0: int, val0: int) -> bool:
    """
    pre: 0 <= c0 <= 3 and 0 <= c1 <= 1 and 0 <= rc1 <= 1 and 0 <= rc2 <= 1 and 0 <= rm0 <= 1 and 4 <= val0 <= 6
    post: _
    """
    mw = _match_world(c0, c1, e0, e1, e2, p1, p2, rc1, rc2, rm0, val0)
    if mw is None:
        return True
    sim, elig, present = mw
    env, rec = _env(M_FLEETS)
    step = StepSimulation.from_tuple((Dispatcher(DCFG),))

    sim2, _ = step.update(sim, env)  # ---- real code

    heading = {}
    for vid in VIDS:
        st = sim2.vehicles[vid].vehicle_state
        if isinstance(st, A.DispatchTrip):
            heading.setdefault(st.request_id, []).append(vid)
            r = sim2.requests.get(st.request_id)
            if r is not None and not r.membership.grant_access_to_membership(sim2.vehicles[vid].membership):
                return False
    note("stepdisp", len(heading), sum(len(v) for v in heading.values()))
    for rid, vs in heading.items():
        if len(vs) > 1:
            return False
        r = sim2.requests.get(rid)
        if r is not None and r.dispatched_vehicle != vs[0]:
            return False
    return I.req_ok(sim2, VIDS)
