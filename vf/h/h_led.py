"""
H04-led: the energy ledger kernels of both mechatronics classes with SYMBOLIC vehicle definitions
(capacity, idle rate, charger rate, taper cutoff) and a duck-typed powertrain returning a symbolic cost, so the
laws are decided "for every powertrain and charger definition":

  CASE 0 BEV.idle      1 BEV.consume_energy     2 BEV.add_energy (linear branch and taper branch via the real power curve)
  CASE 3 ICE.idle      4 ICE.consume_energy     5 ICE.add_energy

post: 0 <= level' <= capacity; level' - level == d(gained) - d(expended); both totals non-decreasing; the untouched total
unchanged; strictly positive expenditure for positive time / cost while energy is left; charging never lowers the level
and adds at most rate x time (x SECONDS_TO_HOURS for kW).
"""
import os
from dataclasses import replace

import immutables

from vf import boot
from vf.boot import note, feq, fle
from vf.h import arena as A
from vf.h import stubs
from nrel.hive.util.units import Unit, SECONDS_TO_HOURS
from nrel.hive.model.energy.charger.charger import Charger
from nrel.hive.model.energy.energytype import EnergyType

stubs.install_np_shim()
CASE = int(os.environ.get("VF_CASE", "0"))


class StubPowertrain:
    """any powertrain: energy_cost(route) is an arbitrary non-negative amount in the mechatronics' own unit"""

    def __init__(self, cost, units):
        self.cost = cost
        self.energy_units = units

    def energy_cost(self, route):
        return self.cost


def _vehicle(proto, et, e, g, x):
    return replace(proto, energy=immutables.Map({et: e}), energy_gained=immutables.Map({et: g}), energy_expended=immutables.Map({et: x}))


def h_led(cap: float, e: float, g: float, x: float, rate: float, cost: float, dt: int, cutoff: float) -> bool:
    """
    pre: 0 <= dt <= 4
    post: _
    """
    ice = CASE >= 3
    op = CASE % 3
    # step length from a finite set (rate x time with both symbolic is non-linear: z3 answers unknown and CrossHair
    # falls back to sampling); the rates, capacity, levels and totals stay symbolic
    dts = (1, 7, 60, 100, 120)
    for k in range(5):
        if dt == k:
            dt = dts[k]
            break
    else:
        return True
    # ranges (accumulated with & so that no path is forked per conjunct; only the arguments this case reads)
    ok = (1 <= cap) & (cap <= 500) & (0 <= e) & (e <= cap) & (0 <= g) & (g <= 1000000) & (0 <= x) & (x <= 1000000) & (0 < rate) & (rate <= 500)
    if op == 1:
        ok = ok & (0 <= cost) & (cost <= 1000)
    if op == 2 and not ice:
        ok = ok & (1 <= cutoff) & (cutoff <= 100)
    if not ok:
        return True
    et = A.G if ice else A.E
    if ice:
        mech = replace(A.ICE, tank_capacity_gallons=cap, idle_gallons_per_hour=rate, powertrain=StubPowertrain(cost, Unit.GALLON_GASOLINE))
        v = _vehicle(A.V0_ICE, et, e, g, x)
        charger = Charger("pump", energy_type=EnergyType.GASOLINE, rate=rate, units="gal_gasoline")
    else:
        mech = replace(A.BEV, battery_capacity_kwh=cap, idle_kwh_per_hour=rate, charge_taper_cutoff_kw=cutoff,
                       powertrain=StubPowertrain(cost, Unit.KILOWATT_HOUR))
        v = _vehicle(A.V0, et, e, g, x)
        charger = Charger("plug", energy_type=EnergyType.ELECTRIC, rate=rate, units="kilowatts")
    if op == 0:
        v2 = mech.idle(v, dt)  # ---- real code
    elif op == 1:
        v2 = mech.consume_energy(v, ())  # ---- real code
    else:
        if not ice and not (cap == 50.0):
            return True  # the arena's power curve is built for a 50 kWh battery; other capacities only on the linear branch
        v2, t_charged = mech.add_energy(v, charger, dt)  # ---- real code
        if not (0 <= t_charged and t_charged <= dt):
            return False
    e2, g2, x2 = v2.energy[et], v2.energy_gained[et], v2.energy_expended[et]
    dg, dx = g2 - g, x2 - x
    note("led", "ice" if ice else "bev", ("idle", "consume", "add")[op])
    if not (fle(0, e2) and fle(e2, cap)):
        return False
    if not feq(e2 - e, dg - dx):
        return False
    if not (fle(0, dg) and fle(0, dx)):
        return False
    if op in (0, 1):
        if not feq(dg, 0.0):
            return False
        amount = rate * dt if op == 0 else cost
        if amount > 0 and e > 0 and not (dx > 0 and e2 < e):
            return False
        if not fle(dx, amount if op == 1 else rate * dt * SECONDS_TO_HOURS + 0.0):
            return False
    else:
        if not feq(dx, 0.0):
            return False
        limit = rate * dt if ice else rate * dt * SECONDS_TO_HOURS
        if not (fle(e, e2) and fle(dg, limit)):
            return False
    # everything else about the vehicle is untouched
    return v2.position == v.position and v2.balance == v.balance and v2.distance_traveled_km == v.distance_traveled_km
