"""
T-upd: one real `step_vehicle(sim, env, vehicle)` (= VehicleState.update -> default_update ->
terminal transition + follow-up _perform_update -> move / charge / idle / pick-up / drop-off /
out-of-energy) from an arbitrary INV pre-state.

CASE (concrete) = previous activity kind (0..12); + 16: the request r0 is a zero-length trip (DispatchTrip only).
Symbolic:  cell, plug, counters + ghosts (unbounded ints), request record, membership scenario,
           powertrain kind, energy level e (float), step length dt (int seconds), station price,
           `pick`: which cell on the link the interpolated point of a partial traversal falls in.

Oracle selected by VF_ORACLE: C02 C03 C04 C05 C06 C07 C10 C16 C17 C19.
"""
import os

import h3 as real_h3
import immutables

from vf import boot
from vf.boot import note, feq, fle
from vf.h import arena as A
from vf.h import inv as I
from vf.h import stubs
from nrel.hive.state.simulation_state.update.step_simulation_ops import step_vehicle
from nrel.hive.reporting.report_type import ReportType
from nrel.hive.util.units import SECONDS_TO_HOURS

stubs.install_np_shim()
stubs.install_h3_shim()
stubs.install_time_diff_shim()

CASE = int(os.environ.get("VF_CASE", "0"))
ORACLE = os.environ.get("VF_ORACLE", "C02")
KIND = CASE % 16
ZERO_TRIP = CASE >= 16  # r0's destination equals its origin
_DTM = None
DT_MAX = int(os.environ.get("VF_DT_MAX_CHARGE", "150") if KIND in (3, 4, 6, 7) else os.environ.get("VF_DT_MAX", "300"))

PLUG_KINDS = (3, 4, 7)
REQ_KINDS = (9, 12)
TRAVEL_KINDS = (2, 7, 8, 9, 10, 11, 12)
CHARGE_KINDS = (3, 6)
CAP = {False: 50.0, True: 15.0}


def _relevant_cells():
    t = set()
    if KIND in A.KIND_TARGET_CELL:
        t.add(A.KIND_TARGET_CELL[KIND])
    other = 3 if 3 not in t else 5
    t.add(other)
    if KIND in TRAVEL_KINDS:
        t.add(0 if 0 not in t else 4)  # a second remote start (different link length)
    return tuple(sorted(t))


REL_CELLS = _relevant_cells()

# candidate cells for the interpolated point of a partial traversal of link (i -> j):
# one cell after the start, the middle of the link, the end cell
_CAND = {}
for (_i, _j), _r in A.ROUTE.items():
    if len(_r) == 1:
        _line = real_h3.h3_line(_r[0].start, _r[0].end)
        _CAND[(_i, _j)] = (_line[1], _line[len(_line) // 2], _line[-1])


def _cell(i):
    for k in range(len(REL_CELLS)):
        if i == k:
            return REL_CELLS[k]
    return None


def _memberships(ms):
    if ms == 0:
        return 0, 0, 0, 0
    if ms == 2:
        return 1, 3, 3, 1
    return None


def _etype(is_ice):
    return A.G if is_ice else A.E


class Ctx:
    pass


def _run(cell, plug, tot, g, q, stalls, sg, s1g, r0d, r0p, ms, ice, e, dt, pick, price, sim_t, rz=False):
    stubs.install_random_shim()  # any randomness reachable from nrel.hive globals is a solver-chosen draw
    c = _cell(cell)
    p = A.plug_of(plug) if KIND in PLUG_KINDS else "LEVEL_2"
    if KIND in REQ_KINDS:
        rd, rp = r0d, (True if r0p else False)
    else:
        rd, rp = 0, True
    mm = _memberships(ms)
    if c is None or p is None or mm is None:
        return None
    mv, m_s, m_b, m_r = mm
    is_ice = True if ice else False
    cap = CAP[is_ice]
    if not ((0 <= e) & (e <= cap) & (1 <= dt) & (dt <= DT_MAX) & (0 <= price) & (price <= 10) & (0 <= sim_t)):
        return None
    spec = A.VSpec("v0", KIND, c, plug=p, memb=mv, ice=is_ice, energy=e, enq=0)
    w = A.build_world(
        (spec,), tot, g, q, stalls, sg, r0_disp=rd, r0_present=rp, s0_memb=m_s, b0_memb=m_b, r0_memb=m_r,
        s1_g=s1g if KIND in (6, 8) else 0, sim_time=stubs.mk_time(sim_t), dt=dt, price_l2=price,
        r0_zero=ZERO_TRIP if KIND == 9 else False,
    )
    if w is None:
        return None
    sim = w.sim
    v_pre = sim.vehicles["v0"]
    if not (I.req_ok(sim, w.vids) and I.mem_ok_vehicle(sim, v_pre) and I.loc_ok(sim, w.vids)):
        return None
    if rd == 1 and KIND not in (9, 12):
        return None
    # where the interpolated point of a partial traversal may fall
    route = getattr(v_pre.vehicle_state, "route", ())
    if len(route) == 1:
        tgt = A.KIND_TARGET_CELL[KIND]
        stubs.H3_SHIM.candidates = _CAND[(c, tgt)]
    elif KIND == 9 and c == 2:
        stubs.H3_SHIM.candidates = _CAND[(2, 3)]  # picks up r0 and drives the first leg C -> D in the same step
    else:
        stubs.H3_SHIM.candidates = (v_pre.geoid,)
    stubs.H3_SHIM.pick = pick
    stubs.H3_SHIM.last = None
    env, rec = A.env_with_recorder()
    x = Ctx()
    x.w, x.sim, x.env, x.rec, x.v, x.ice, x.cap, x.dt, x.e, x.c = w, sim, env, rec, v_pre, is_ice, cap, dt, e, c
    x.et = _etype(is_ice)
    x.snap0 = I.snap_sim(sim) if ORACLE == "C16" else None

    x.sim2 = step_vehicle(sim, env, v_pre)  # ---- the real code under test

    x.v2 = x.sim2.vehicles["v0"]
    x.k2 = A.kind_of_state(x.v2.vehicle_state)
    return x


def _events(x, name):
    return [r for r in x.rec.reports if r.report_type.name == name]


# ----------------------------------------------------------------------------------- oracles
def _o_c04(x) -> bool:
    """energy stays physical and accounted for (one step)"""
    et = x.et
    e0, e1 = x.v.energy[et], x.v2.energy[et]
    dg = x.v2.energy_gained[et] - x.v.energy_gained[et]
    dx = x.v2.energy_expended[et] - x.v.energy_expended[et]
    if not (fle(0, e1) and fle(e1, x.cap)):
        return False
    if not feq(e1 - e0, dg - dx):
        return False
    if not (fle(0, dg) and fle(0, dx)):
        return False
    moved = x.v2.geoid != x.v.geoid or x.v2.distance_traveled_km != x.v.distance_traveled_km
    if moved and not (dx > 0):
        return False  # driving a positive distance expends a strictly positive amount
    if KIND in (0, 4) and x.k2 == KIND:
        # idling / queueing for dt > 0 with energy left expends a strictly positive amount
        if e0 > 0 and not (dx > 0 and e1 < e0):
            return False
    if x.k2 in (3, 6):
        # charging never lowers the level, nor adds more than the plug can deliver in dt
        st = x.v2.vehicle_state
        station = x.sim2.stations["s0" if x.k2 == 3 else "s1"]
        rate = station.state[st.charger_id].charger.rate
        limit = rate * x.dt if x.ice else rate * x.dt * SECONDS_TO_HOURS
        if not (fle(e0, e1) and fle(e1 - e0, limit)):
            return False
    if KIND in TRAVEL_KINDS and x.k2 == 1:
        # out of energy: stops where it was instead of moving on
        if x.v2.geoid != x.v.geoid or x.v2.distance_traveled_km != x.v.distance_traveled_km:
            return False
    if moved and not (e1 > 0):
        return False  # a vehicle that moved had the energy for that movement
    return True


def _o_c05(x) -> bool:
    """energy gained == energy dispensed, payment sent == payment received == price * energy"""
    et = x.et
    d_gain = x.v2.energy_gained[et] - x.v.energy_gained[et]
    d_bal_v = x.v2.balance - x.v.balance
    d_disp = 0.0
    d_bal_s = 0.0
    for sid in ("s0", "s1"):
        s_a, s_b = x.sim.stations[sid], x.sim2.stations[sid]
        d_disp = d_disp + (s_b.energy_dispensed[et] - s_a.energy_dispensed[et])
        d_bal_s = d_bal_s + (s_b.balance - s_a.balance)
        other = A.G if et is A.E else A.E
        if not feq(s_b.energy_dispensed[other], s_a.energy_dispensed[other]):
            return False
    fare = 0.0
    for r in _events(x, "PICKUP_REQUEST_EVENT"):
        fare = fare + r.report["price"]
    if not feq(d_gain, d_disp):
        return False
    if not feq(d_bal_v - fare, -d_bal_s):
        return False
    if x.k2 in (3, 6) and d_gain != 0:
        st = x.v2.vehicle_state
        sid = "s0" if x.k2 == 3 else "s1"
        price = x.sim.stations[sid].state[st.charger_id].price_per_kwh
        other_sid = "s1" if sid == "s0" else "s0"
        if not feq(x.sim2.stations[sid].balance - x.sim.stations[sid].balance, price * d_gain):
            return False
        if not feq(x.sim2.stations[other_sid].balance, x.sim.stations[other_sid].balance):
            return False
    elif not (feq(d_bal_s, 0.0)):
        return False
    return True


def _o_c06(x) -> bool:
    """continuity of movement for one step (haversine arena: single-link routes)"""
    v, v2 = x.v, x.v2
    d_odo = v2.distance_traveled_km - v.distance_traveled_km
    moves = _events(x, "VEHICLE_MOVE_EVENT")
    route0 = getattr(v.vehicle_state, "route", None)
    if KIND not in TRAVEL_KINDS:
        # position changes only while travelling
        return v2.geoid == v.geoid and feq(d_odo, 0.0) and len(moves) == 0
    if x.k2 == 1:
        return v2.geoid == v.geoid and feq(d_odo, 0.0)
    if KIND == 9 and x.k2 == 10:
        # arrived at the request this step: picked up, first leg of the trip driven in the same step
        route0 = x.sim.road_network.route(x.sim.requests["r0"].position, x.sim.requests["r0"].destination_position)
        if len(route0) == 0:
            # zero-length trip: picked up and dropped off on the spot
            return v2.geoid == v.geoid and feq(d_odo, 0.0)
    if route0 is None or len(route0) == 0:
        # arrived earlier: leaves the travelling activity within one step, without moving
        return v2.geoid == v.geoid and feq(d_odo, 0.0) and (x.k2 not in TRAVEL_KINDS or KIND in (9, 11, 12))
    link = route0[0]
    route2 = getattr(v2.vehicle_state, "route", ())
    if len(moves) != 1:
        return False
    # distance covered is bounded by speed * dt (+ whole-second rounding of a completed link)
    if not fle(d_odo, link.distance_km):
        return False
    if len(route2) == 0:
        # finished the link: its travel time (rounded down to whole seconds) fits in the step
        if not (int(link.distance_km / link.speed_kmph * 3600) <= x.dt):
            return False
        if v2.geoid != link.end:
            return False
        if not feq(d_odo, link.distance_km):
            return False
    else:
        rem = route2[0]
        if not (rem.link_id == link.link_id and rem.end == link.end and rem.start == v2.geoid):
            return False
        # the split point is the junction between driven and remaining part
        if not (v2.position.link_id == link.link_id):
            return False
        # no faster than the road allows: the point requested from the geometry library lies at
        # fraction dt*speed/(3600*length) of the link, strictly inside it (the cell that point falls
        # in is h3 geometry: stubbed, see H3Shim; under concrete replay the real h3 decides)
        if boot.SYMBOLIC:
            last = stubs.H3_SHIM.last
            if last is None:
                return False
            lat0, lon0 = real_h3.h3_to_geo(link.start)
            lat1, lon1 = real_h3.h3_to_geo(link.end)
            ratio = (x.dt * SECONDS_TO_HOURS) * link.speed_kmph / link.distance_km
            if not (0 < ratio and ratio < 1):
                return False
            if not (feq(last[0], lat0 + (lat1 - lat0) * ratio) and feq(last[1], lon0 + (lon1 - lon0) * ratio)):
                return False
        else:
            if not fle(d_odo, link.speed_kmph * x.dt / 3600.0 + 0.002):
                return False
            if v2.geoid == v.geoid:
                return False  # progress: a vehicle with energy leaves the start cell
    return True


def _o_c03(x) -> bool:
    """request status changes only waiting->onboard (pickup event, fare once) / onboard->done (drop-off event)"""
    pick = _events(x, "PICKUP_REQUEST_EVENT")
    drop = _events(x, "DROPOFF_REQUEST_EVENT")
    st0, st2 = x.v.vehicle_state, x.v2.vehicle_state
    was_waiting = "r0" in x.sim.requests
    now_waiting = "r0" in x.sim2.requests
    onboard0 = st0.request.id if isinstance(st0, A.ServicingTrip) else None
    onboard2 = st2.request.id if isinstance(st2, A.ServicingTrip) else None
    d_bal = x.v2.balance - x.v.balance
    if "r1" not in x.sim2.requests:
        return False  # an uninvolved request vanished
    picked = was_waiting and not now_waiting
    if picked:
        # exactly one pickup event, by this vehicle, at the origin, fare credited once, now on board
        if not (len(pick) == 1 and pick[0].report["request_id"] == "r0" and pick[0].report["vehicle_id"] == "v0"):
            return False
        # ... unless the vehicle ran out of energy on the first leg (the statement's exception)
        if not ((onboard2 == "r0" or x.k2 == 1) and KIND == 9 and feq(d_bal, A.R0.value)):
            return False
        if pick[0].report["geoid"] != A.R0.origin:
            return False
    else:
        if len(pick) != 0 or (now_waiting and not was_waiting):
            return False
        if KIND not in CHARGE_KINDS and x.k2 not in CHARGE_KINDS and not feq(d_bal, 0.0):
            return False
    if onboard0 is not None:
        # a carried request stays on board until dropped at its destination (or the vehicle runs out of energy)
        if onboard2 is None and x.k2 != 1:
            route0 = st0.route
            if len(route0) != 0:
                return False  # left the trip with road still ahead
            if x.v2.geoid != st0.request.destination:
                return False
        if len(drop) > 1:
            return False
        if len(drop) == 1:
            if not (drop[0].report["request_id"] == onboard0 and drop[0].report["vehicle_id"] == "v0"):
                return False
            if drop[0].report["geoid"] != st0.request.destination or x.v2.geoid != st0.request.destination:
                return False
            if len(st0.route) == 0:
                return False  # second drop-off of a trip whose route was already exhausted
        elif len(st0.route) != 0 and onboard2 is not None and len(st2.route) == 0:
            return False  # reached the destination this step without a drop-off event
    elif len(drop) != 0 and not (picked and onboard2 == "r0" and len(st2.route) == 0):
        return False
    if picked and onboard2 == "r0" and len(st2.route) == 0 and len(drop) != 1:
        # picked up where the trip also ends: the vehicle is at the destination with nothing left to drive, so the drop-off
        # belongs to this step (the next step only leaves the activity -- and must not drop off a second time)
        return False
    return True


def _o_c19(x) -> bool:
    """events explain the state change of this step"""
    et = x.et
    moves = _events(x, "VEHICLE_MOVE_EVENT")
    charges = _events(x, "VEHICLE_CHARGE_EVENT")
    d_odo = x.v2.distance_traveled_km - x.v.distance_traveled_km
    d_gain = x.v2.energy_gained[et] - x.v.energy_gained[et]
    moved = x.v2.geoid != x.v.geoid or d_odo != 0
    if len(moves) > 1 or len(charges) > 1:
        return False
    if moved != (len(moves) == 1) and moved:
        return False
    s_m = 0.0
    for r in moves:
        s_m = s_m + r.report["distance_km"]
        if r.report["vehicle_id"] != "v0":
            return False
    if not feq(s_m, d_odo):
        return False
    s_c = 0.0
    paid = 0.0
    for r in charges:
        s_c = s_c + r.report["energy"]
        paid = paid + r.report["price"]
        sid = "s0" if x.k2 == 3 else "s1"
        if r.report["vehicle_id"] != "v0" or r.report["station_id"] != sid:
            return False
    if not feq(s_c, d_gain):
        return False
    if d_gain != 0 and len(charges) != 1:
        return False
    d_bal_s = 0.0
    for sid in ("s0", "s1"):
        d_bal_s = d_bal_s + (x.sim2.stations[sid].balance - x.sim.stations[sid].balance)
    if not feq(paid, d_bal_s):
        return False
    # every pickup / drop-off that changes the state is reported exactly once, and nothing is reported that did not happen
    # (the request-status clauses of the C03 oracle: pickup event <=> r0 left the waiting set and is on board, ...)
    return _o_c03(x)


def _o_c07(x) -> bool:
    if not I.loc_ok(x.sim2, x.w.vids):
        return False
    for r in _events(x, "PICKUP_REQUEST_EVENT"):
        if r.report["geoid"] != A.R0.origin or x.v.geoid != A.R0.origin:
            return False
    r0 = x.sim.requests.get("r0")
    r0_dest = r0.destination if r0 is not None else A.R0.destination  # (a zero-length r0 ends where it starts)
    for r in _events(x, "DROPOFF_REQUEST_EVENT"):
        want = r0_dest if r.report["request_id"] == "r0" else A.RB.destination
        if r.report["geoid"] != want or x.v2.geoid != want:
            return False
    return True


def _o_c16(x) -> bool:
    ok = I.deq(x.snap0, I.snap_sim(x.sim))
    env2, _ = A.env_with_recorder()
    stubs.H3_SHIM.calls = 0
    sim3 = step_vehicle(x.sim, env2, x.v)
    with boot.no_tracing():
        env_same = A.env_fingerprint() == A.ENV_FP0  # shared model tables of the environment untouched
    return ok and env_same and I.deq(I.snap_sim(x.sim2, True), I.snap_sim(sim3, True))


def _decide(x) -> bool:
    if ORACLE == "C02":
        return I.counts_ok(x.sim2, x.w)
    if ORACLE == "C03":
        return _o_c03(x)
    if ORACLE == "C04":
        return _o_c04(x)
    if ORACLE == "C05":
        return _o_c05(x)
    if ORACLE == "C06":
        return _o_c06(x)
    if ORACLE == "C07":
        return _o_c07(x)
    if ORACLE == "C08":
        return I.idx_ok(x.sim2)
    if ORACLE == "C10":
        return I.mem_ok_vehicle(x.sim2, x.v2)
    if ORACLE == "C16":
        return _o_c16(x)
    if ORACLE == "C17":
        return I.req_ok(x.sim2, x.w.vids)
    if ORACLE == "C19":
        return _o_c19(x)
    return False


def t_upd(
    cell: int, plug: int, tot: int, g: int, q: int, stalls: int, sg: int, s1g: int, r0d: int, r0p: bool,
    ms: int, ice: bool, e: float, dt: int, pick: int, price: float, sim_t: int, rz: bool,
) -> bool:
    """
    pre: 0 <= cell <= 2 and 0 <= plug <= 3 and 0 <= r0d <= 3 and 0 <= s1g <= 1 and 0 <= pick <= 2
    pre: ms == 0 or ms == 2
    post: _
    """
    x = _run(cell, plug, tot, g, q, stalls, sg, s1g, r0d, r0p, ms, ice, e, dt, pick, price, sim_t, rz)
    if x is None:
        return True
    note(A.KIND_NAMES[KIND], A.KIND_NAMES[x.k2], "ice" if x.ice else "bev",
         "moved" if x.v2.geoid != x.v.geoid else "stayed", len(x.rec.reports))
    return _decide(x)


def t_upd_reach(
    cell: int, plug: int, tot: int, g: int, q: int, stalls: int, sg: int, s1g: int, r0d: int, r0p: bool,
    ms: int, ice: bool, e: float, dt: int, pick: int, price: float, sim_t: int, rz: bool,
) -> bool:
    """
    reachability twin: must be refuted
    pre: 0 <= cell <= 2 and 0 <= plug <= 3 and 0 <= r0d <= 3 and 0 <= s1g <= 1 and 0 <= pick <= 2
    pre: ms == 0 or ms == 2
    post: _
    """
    x = _run(cell, plug, tot, g, q, stalls, sg, s1g, r0d, r0p, ms, ice, e, dt, pick, price, sim_t)
    return x is None
