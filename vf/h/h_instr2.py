"""
C09, second half.

 h_other  two instructions (for v0 and v1) in one real apply_instructions call: an instruction that is rejected on its own
          does not disturb the other one -- the joint result equals the result of the accepted instruction alone
          (both orders in the tuple).   CASE = kind of v0 (index into KINDS) * 4 + kind of v1.
 h_prec   real StepSimulation.update with up to three stub generators that each emit a symbolic instruction (or none) for v0,
          plus the vehicle's own driver (autonomous, idle longer / shorter than the idle time-out): exactly one instruction is
          logged and applied per vehicle -- the driver's if it produced one, else the last generator's that produced one --
          and the other vehicle's instruction is unaffected.
"""
import os
from dataclasses import replace

import immutables

from vf import boot
from vf.boot import note
from vf.h import arena as A
from vf.h import inv as I
from vf.h import stubs

from nrel.hive.state.simulation_state.update.step_simulation_ops import apply_instructions
from nrel.hive.state.simulation_state.update.step_simulation import StepSimulation
from nrel.hive.dispatcher.instruction_generator.instruction_generator import InstructionGenerator
from nrel.hive.state.simulation_state import simulation_state_ops as sso

stubs.install_np_shim()
stubs.install_h3_shim()
stubs.install_time_diff_shim()

CASE = int(os.environ.get("VF_CASE", "0"))
KINDS = (0, 3, 5, 9)  # Idle, ChargingStation(s0, LEVEL_2), ReserveBase(b0), DispatchTrip(r0)
K0 = KINDS[(CASE // 4) % 4]
K1 = KINDS[CASE % 4]
HOME = {0: 3, 3: 0, 5: 1, 9: 3}  # a cell compatible with the activity
INSTRS = (0, 1, 3, 4, 5, 6, 7, 12)  # Idle, DispatchTrip, ChargeStation, ChargeBase, DispatchBase, ReserveBase, OutOfService, ReserveBase_b1


def _instr(i, vid):
    for k in range(len(INSTRS)):
        if i == k:
            return A.instruction(INSTRS[k], "LEVEL_2", vid)
    return None


def h_other(i0: int, i1: int, tot: int, g: int, stalls: int, sg: int, first: bool, deny: bool) -> bool:
    """
    deny (only with v0 idle): station s0, base b0 and request r0 belong to fleet f2, v1 is a member of f2 and v0 of f1, so that
    v0's instruction is refused with an ERROR by the target's enter() (not by the silent "nothing to do" refusal)
    pre: 0 <= i0 <= 7 and 0 <= i1 <= 7
    post: _
    """
    if K0 == 9 and K1 == 9:
        return True  # the arena models one vehicle en route to r0 (double dispatch is covered by T-instr's request records)
    a, b = _instr(i0, "v0"), _instr(i1, "v1")
    if a is None or b is None:
        return True
    dn = True if deny else False
    if dn and K0 != 0:
        return True  # (a vehicle already using a target that does not admit it is not an INV-state)
    specs = (A.VSpec("v0", K0, HOME[K0], plug="LEVEL_2", memb=1 if dn else 0), A.VSpec("v1", K1, HOME[K1], plug="LEVEL_2", memb=2 if dn else 0))
    rd = 1 if K0 == 9 else (2 if K1 == 9 else 0)
    tm = 2 if dn else 0
    w = A.build_world(specs, tot, g, 0, stalls, sg, r0_disp=rd, s0_memb=tm, b0_memb=tm, r0_memb=tm)
    if w is None:
        return True
    sim = w.sim
    env, rec = A.env_with_recorder()
    pair = (a, b) if first else (b, a)
    both = apply_instructions(sim, env, pair)  # ---- real code
    only_a = apply_instructions(sim, env, (a,))
    only_b = apply_instructions(sim, env, (b,))
    a_rejected = I.deq(I.snap_sim(sim), I.snap_sim(only_a))
    b_rejected = I.deq(I.snap_sim(sim), I.snap_sim(only_b))
    note("other", A.KIND_NAMES[K0], A.KIND_NAMES[K1], "a-rej" if a_rejected else "a-acc", "b-rej" if b_rejected else "b-acc", "deny" if dn else "open")
    if not I.counts_ok(both, w):
        return False
    if a_rejected and b_rejected:
        return I.deq(I.snap_sim(sim), I.snap_sim(both))
    if a_rejected:
        return I.deq(I.snap_sim(only_b, True), I.snap_sim(both, True))
    if b_rejected:
        return I.deq(I.snap_sim(only_a, True), I.snap_sim(both, True))
    # both accepted on their own: each vehicle holds exactly one applied instruction, and it is its own
    ai = both.applied_instructions
    for vid, ins in ai.items():
        if ins.vehicle_id != vid:
            return False
    return True


class StubGen(InstructionGenerator):
    """a controller that emits a fixed tuple of instructions"""

    def __init__(self, name, instructions):
        self._name = name
        self.instructions = instructions

    @property
    def name(self):
        return self._name

    def generate_instructions(self, simulation_state, environment):
        return self, self.instructions


class GenZ(StubGen):
    """(three distinct classes whose names are NOT in alphabetical order of priority: StepSimulation keys generators by class name)"""

    def __init__(self, instructions):
        self.instructions = instructions

    @property
    def name(self):
        return self.__class__.__name__


class GenA(GenZ):
    pass


class GenM(GenZ):
    pass


def h_prec(g1: int, g2: int, g3: int, idle: int, o1: int) -> bool:
    """
    generator outputs for v0: 0 none, 1 Idle, 2 DispatchTrip(r0), 3 DispatchBase(b0), 4 OutOfService, 5 DispatchBase(b1)
    (two different bases: whichever base the driver itself would choose, one generator output is the same KIND of instruction with
    another target)
    CASE (rj): 0 nothing / k: generator k is handed back unchanged through StepSimulation.update_instruction_generator before the
    step (what runner_payload_ops.update_instruction_generator does between co-simulation calls): priority must not move
    pre: 0 <= g1 <= 5 and 0 <= g2 <= 5 and 0 <= g3 <= 5 and 0 <= idle <= 4000 and 0 <= o1 <= 1
    post: _
    """
    table = (None, 0, 1, 5, 7, 11)

    def mk(i, vid):
        for k in range(6):
            if i == k:
                return None if table[k] is None else A.instruction(table[k], "LEVEL_2", vid)
        return None

    outs = [mk(g1, "v0"), mk(g2, "v0"), mk(g3, "v0")]
    other = A.instruction(7, "LEVEL_2", "v1") if o1 == 1 else None
    v0 = replace(A.V0, position=A.POS[3], vehicle_state=replace(A.Idle.build("v0"), idle_duration=idle))
    v1 = replace(A.V1, position=A.POS[0], vehicle_state=A.ReserveBase.build("v1", "b0"))  # driver of a parked AV stays silent only if full
    v1 = replace(v1, position=A.POS[1], energy=immutables.Map({A.E: 50.0}))
    sim = A.SIM0
    b0 = replace(sim.bases["b0"], available_stalls=sim.bases["b0"].available_stalls - 1)
    sim = sim._replace(bases=sim.bases.set("b0", b0))
    for v in (v0, v1):
        sim = sso.add_vehicle_safe(sim, v).unwrap()
    sim = sso.add_request_safe(sim, A.R0).unwrap()
    env, rec = A.env_with_recorder()
    gens = []
    for k, ins in enumerate(outs):
        emitted = tuple(x for x in (ins, other if k == 0 else None) if x is not None)
        gens.append((GenZ, GenA, GenM)[k](emitted))
    step = StepSimulation.from_tuple(tuple(gens))
    for k in range(3):
        if CASE % 4 == k + 1:
            step = step.update_instruction_generator(gens[k]).unwrap()
    sim2, _ = step.update(sim, env)  # ---- real code
    logged = [r.report for r in rec.reports if r.report_type.name == "INSTRUCTION"]
    mine = [r for r in logged if r["vehicle_id"] == "v0"]
    theirs = [r for r in logged if r["vehicle_id"] == "v1"]
    timeout = env.config.dispatcher.idle_time_out_seconds
    driver_speaks = idle > timeout
    last = None
    for ins in outs:
        if ins is not None:
            last = ins
    note("prec", "driver" if driver_speaks else "quiet", g1, g2, g3)
    if len(mine) > 1 or len(theirs) > 1:
        return False
    if driver_speaks:
        # the autonomous driver of an idle vehicle past the time-out sends it to a base: the final word
        if len(mine) != 1 or mine[0]["instruction_type"] != "DispatchBaseInstruction":
            return False
        # ... and it is the driver's OWN instruction (its target, not just its kind) that took effect
        own = sim.vehicles["v0"].driver_state.generate_instruction(sim, env, ())
        if own is None or sim2.applied_instructions.get("v0") != own:
            return False
        if getattr(sim2.vehicles["v0"].vehicle_state, "base_id", None) != own.base_id:
            return False
    elif last is None:
        if len(mine) != 0:
            return False
    else:
        if len(mine) != 1 or mine[0]["instruction_type"] != type(last).__name__:
            return False
        if sim2.applied_instructions.get("v0") is not None and sim2.applied_instructions.get("v0") != last:
            return False
    if other is not None:
        if len(theirs) != 1 or theirs[0]["instruction_type"] != "OutOfServiceInstruction":
            return False
        if not isinstance(sim2.vehicles["v1"].vehicle_state, A.OutOfService):
            return False
    elif len(theirs) != 0:
        return False
    # at most one instruction took effect per vehicle
    for vid, ins in sim2.applied_instructions.items():
        if ins.vehicle_id != vid:
            return False
    return True


def h_prec_order(g1: int, g2: int, g3: int, q: int) -> bool:
    """
    C01: the same step under two iteration orders (solver-chosen) of StepSimulation.instruction_generators -- a Map keyed by
    generator name, i.e. hash-ordered -- after generator CASE (1..3) has been handed back through
    StepSimulation.update_instruction_generator: the instruction that wins for v0 is the same.
    (every order q is compared with the configured order: equality with it is transitive)
    pre: 0 <= g1 <= 4 and 0 <= g2 <= 4 and 0 <= g3 <= 4 and 1 <= q <= 5
    post: _
    """
    table = (None, 0, 1, 5, 7)

    def mk(i):
        for k in range(5):
            if i == k:
                return None if table[k] is None else A.instruction(table[k], "LEVEL_2", "v0")
        return None

    pa, pb = (0, 1, 2), stubs.perm_of(q, 3)
    if pb is None:
        return True
    outs = [mk(g1), mk(g2), mk(g3)]
    names = ("GenZ", "GenA", "GenM")
    v0 = replace(A.V0, position=A.POS[3])
    sim = sso.add_request_safe(sso.add_vehicle_safe(A.SIM0, v0).unwrap(), A.R0).unwrap()
    won = []
    for perm in (pa, pb):
        env, rec = A.env_with_recorder()
        gens = [(GenZ, GenA, GenM)[k](tuple(x for x in (outs[k],) if x is not None)) for k in range(3)]
        step = StepSimulation.from_tuple(tuple(gens))
        step = replace(step, instruction_generators=stubs.MapOrderView(step.instruction_generators, tuple(names[i] for i in perm)))
        k = CASE % 4
        if k > 0:
            step = step.update_instruction_generator(gens[k - 1]).unwrap()
        sim2, _ = step.update(sim, env)  # ---- real code
        mine = [r.report["instruction_type"] for r in rec.reports if r.report_type.name == "INSTRUCTION" and r.report["vehicle_id"] == "v0"]
        won.append(tuple(mine))
    note("prec-order", CASE % 4, len(won[0]))
    return won[0] == won[1]
