"""
E2 kernel check (direct z3 encoding generated from the AST of the real function at run time):

  TabularPowercurve.charge(start_soc, full_soc, power_kw, duration_seconds)

with the SHIPPED 41-point normalized curve (50 kW / 50 kWh, integration step 60 s), symbolic start level, limit,
plug power (reals) and duration (int seconds).  CrossHair forks once per table segment per sub-step on this loop;
the merged-ite encoding decides all sub-steps at once.

CASE 0: shipped table, durations {1,7,30,59,60,61,90,119,120,121,179,181,300,359,360} s: loop unrolled exactly, linear queries
CASE 1: shipped table, symbolic real duration in [1, 60] (one partial sub-step; the only non-linear product is solved by z3)
CASE 2: 4-point table, integration step 30 s, durations {1,13,29,30,31,45,59,60,61,100,239,240} s
(a symbolic duration over several sub-steps multiplies two symbolic terms per sub-step: z3 answered unknown after 60 s)

Obligations (each a separate query, must be unsat when negated):
  U   unwinding: the loop guard is false after the last unrolling
  P1  charging never lowers the level                      out >= start
  P2  never more than the plug can deliver in the step     out - start <= power * duration / 3600
  P4  reported charging time within the step               0 <= t_out <= duration
Translation validation: the encoding is evaluated on a grid of concrete inputs and compared with the real function.
"""
import time

try:  # the replay runs in /venv/bin/python, which has no z3: only the encoding side needs it
    import z3
    from vf import py2smt
except ImportError:  # pragma: no cover
    z3 = None
    py2smt = None
from nrel.hive.resources import mock_lobster as ml
from nrel.hive.model.vehicle.mechatronics.powercurve.tabular_powercurve import TabularPowercurve
from nrel.hive.util.units import SECONDS_TO_HOURS


def _curve(case):
    if case in (0, 1):
        return ml.mock_powercurve(), (6 if case == 0 else 1), (360 if case == 0 else 60)
    pc = TabularPowercurve(
        data={"name": "k4", "power_type": "electric", "step_size_seconds": 30,
              "power_curve": [{"energy_kwh": 0.0, "power_kw": 1.0}, {"energy_kwh": 0.5, "power_kw": 1.0},
                              {"energy_kwh": 0.8, "power_kw": 0.5}, {"energy_kwh": 1.0, "power_kw": 0.1}]},
        nominal_max_charge_kw=50, battery_capacity_kwh=50)
    return pc, 8, 240


def _encode(pc, unroll, dur_value=None):
    start, full, power = z3.Real("start"), z3.Real("full"), z3.Real("power")
    # symbolic duration: any real (a superset of whole seconds) keeps the query in pure real arithmetic;
    # concrete duration: the loop is unrolled exactly and the query is linear
    dur = z3.Real("dur") if dur_value is None else dur_value
    xs = [float(v) for v in pc._charging_energy_kwh]
    ys = [float(v) for v in pc._charging_rate_kw]
    env = {
        "self": {"step_size_seconds": pc.step_size_seconds, "_charging_energy_kwh": ("xs",), "_charging_rate_kw": ("ys",)},
        "start_soc": start, "full_soc": full, "power_kw": power, "duration_seconds": dur,
        "SECONDS_TO_HOURS": SECONDS_TO_HOURS,
    }
    calls = {"np.interp": lambda x, xp, fp: py2smt.interp_term(x, xs, ys)}
    it = py2smt.Interp(TabularPowercurve.charge, env, calls=calls, unroll=unroll)
    ret, st = it.run()
    return (start, full, power, dur), ret, it, max(ys)


def _real(pc, start, full, power, dur):
    return pc.charge(start_soc=start, full_soc=full, power_kw=power, duration_seconds=dur)


def _props_concrete(pc, start, full, power, dur, max_rate):
    e, t = _real(pc, start, full, power, dur)
    tol = 1e-9
    return e >= start - tol and e - start <= power * dur / 3600.0 + tol and 0 <= t <= dur + tol


def replay_curve(case, start, full, power, dur):
    pc, unroll, dmax = _curve(case)
    ys = [float(v) for v in pc._charging_rate_kw]
    return _props_concrete(pc, float(start), float(full), float(power), int(dur), max(ys))


DURATIONS = {0: (1, 7, 30, 59, 60, 61, 90, 119, 120), 2: (1, 13, 29, 30, 31, 45, 59, 60, 61, 89)}


def _validate(pc, terms, vars_, dur_value, dmax):
    start, full, power, dur = vars_
    e_out, t_out = terms
    n = 0
    durs = (1, 2, 30, 59, 60) if dur_value is None else (dur_value,)
    for s0 in (0.0, 5.0, 24.9, 25.0, 39.99, 45.0, 49.5, 49.9):
        for pw in (3.3, 7.2, 50.0, 150.0):
            for d in durs:
                if d > dmax:
                    continue
                fl = 49.9
                re, rt = _real(pc, s0, fl, pw, d)
                b = {start: s0, full: fl, power: pw}
                if dur_value is None:
                    b[dur] = d
                ee, et = py2smt.eval_term(e_out, b), py2smt.eval_term(t_out, b)
                if abs(ee - re) > 1e-9 * max(1.0, abs(re)) or abs(et - rt) > 1e-9:
                    raise AssertionError(f"translation validation: encoding {ee, et} != real {re, rt} at {s0, fl, pw, d}")
                n += 1
    return n


def curve(case, timeout):
    pc, unroll, dmax = _curve(case)
    t0 = time.time()
    cap = 50.0
    per = []
    status = "CONFIRMED"
    cex = None
    n_val = 0
    src = None
    c_s2h = z3.RealVal(repr(SECONDS_TO_HOURS))
    durations = (None,) if case == 1 else DURATIONS[case]
    for dv in durations:
        n_steps = unroll if dv is None else -(-dv // pc.step_size_seconds)
        (start, full, power, dur), ret, it, max_rate = _encode(pc, n_steps, dv)
        src = it.source_file
        e_out, t_out = py2smt._to_real(ret[0]), py2smt._to_real(ret[1])
        n_val += _validate(pc, (e_out, t_out), (start, full, power, dur), dv, dmax)
        assume = [start >= 0, start <= full, full <= cap, power > 0, power <= 500]
        if dv is None:
            assume += [dur >= 1, dur <= dmax]
        d_term = dur if dv is None else z3.RealVal(dv)
        goals = [
            ("U", z3.Not(z3.Or(*it.unwinding)) if it.unwinding else z3.BoolVal(True)),
            ("P1", e_out >= start),
            ("P2", e_out - start <= power * d_term * c_s2h),
            ("P4", z3.And(t_out >= 0, t_out <= d_term)),
        ]
        for name, g in goals:
            r, m, dt = py2smt.check(assume, g, timeout_s=60.0)
            per.append({"duration": "symbolic in [1,%d]" % dmax if dv is None else dv, "goal": name, "result": r, "seconds": round(dt, 2)})
            if r == "sat":
                args = {"case": case, "start": py2smt.model_value(m, start), "full": py2smt.model_value(m, full),
                        "power": py2smt.model_value(m, power), "dur": py2smt.model_value(m, dur) if dv is None else dv}
                cex = {"args": args, "message": f"obligation {name} refuted by z3 (duration {dv})", "kind": "SMT_SAT"}
                status = "REFUTED"
                break
            if r != "unsat":
                status = "UNKNOWN"
        if cex is not None:
            break
    return dict(
        status=status,
        exhausted=(status != "UNKNOWN"),
        queries=len(per),
        queries_unsat=sum(1 for p in per if p["result"] == "unsat"),
        cex=cex,
        notes=[["curve", case, str(p["duration"]), p["goal"], p["result"]] for p in per],
        functions=["nrel/hive/model/vehicle/mechatronics/powercurve/tabular_powercurve.py:TabularPowercurve.charge"],
        messages=[{"state": "INFO", "message": f"table_points={len(pc._charging_rate_kw)} step={pc.step_size_seconds}s tv_points={n_val} queries={len(per)} "
                                                f"solver_s={sum(p['seconds'] for p in per):.1f}"}],
        smt={"engine": "z3 " + z3.get_version_string(), "queries": per, "translation_validation_points": n_val, "source": src},
    )


def curve_inductive(case, timeout):
    """
    loop-invariant form (one symbolic iteration of the real loop body from an arbitrary state):
        Inv(t, e)  :=  start <= e  and  e - start <= power * t * SECONDS_TO_HOURS  and  0 <= t <= duration
    Init: Inv(0, start).   Step: Inv(t, e) and guard(t, e)  =>  Inv(t', e') and t' > t.   Exit: Inv gives P1, P2, P4.
    Holds for any (real) duration and any number of sub-steps.
    """
    import ast

    pc, _, _ = _curve(case)
    start, full, power, dur = z3.Real("start"), z3.Real("full"), z3.Real("power"), z3.Real("dur")
    t, e = z3.Real("t"), z3.Real("e")
    xs = [float(v) for v in pc._charging_energy_kwh]
    ys = [float(v) for v in pc._charging_rate_kw]
    env = {
        "self": {"step_size_seconds": pc.step_size_seconds, "_charging_energy_kwh": ("xs",), "_charging_rate_kw": ("ys",)},
        "start_soc": start, "full_soc": full, "power_kw": power, "duration_seconds": dur,
        "SECONDS_TO_HOURS": SECONDS_TO_HOURS,
    }
    calls = {"np.interp": lambda x, xp, fp: py2smt.interp_term(x, xs, ys)}
    it = py2smt.Interp(TabularPowercurve.charge, env, calls=calls, unroll=1)
    body = it.tree.body
    loop = [s for s in body if isinstance(s, ast.While)]
    assert len(loop) == 1, "charge() is expected to have exactly one while loop"
    loop = loop[0]
    # the statements before the loop initialise t and energy_kwh; after it the function returns (energy_kwh, t)
    pre = it.block(body[: body.index(loop)], dict(it.env0))
    rest = body[body.index(loop) + 1:]
    assert len(rest) == 1 and isinstance(rest[0], ast.Return) and ast.unparse(rest[0].value) == "(energy_kwh, t)", ast.unparse(rest[0])
    names = sorted(k for k in pre if k not in it.env0 and not k.startswith("$"))
    assert names == ["energy_kwh", "t"], names
    st = dict(it.env0)
    st["t"], st["energy_kwh"] = t, e
    guard = py2smt._b(it.ev(loop.test, st))
    st2 = it.block(loop.body, st)
    t2, e2 = py2smt._to_real(st2["t"]), py2smt._to_real(st2["energy_kwh"])
    c = z3.RealVal(repr(SECONDS_TO_HOURS))

    def inv(tt, ee):
        return z3.And(start <= ee, ee - start <= power * tt * c, tt >= 0, tt <= dur)

    assume = [start >= 0, start <= full, full <= 50.0, power > 0, power <= 500, dur >= 0]
    goals = [
        ("init", inv(py2smt._to_real(pre["t"]), py2smt._to_real(pre["energy_kwh"]))),
        ("step", z3.Implies(z3.And(inv(t, e), guard), inv(t2, e2))),
        ("variant", z3.Implies(z3.And(inv(t, e), guard), t2 > t)),
        ("exit", z3.Implies(z3.And(inv(t, e), z3.Not(guard)), z3.And(e >= start, e - start <= power * dur * c, t <= dur))),
    ]
    per = []
    status, cex = "CONFIRMED", None
    for name, g in goals:
        r, m, dt = py2smt.check(assume, g, timeout_s=max(20.0, timeout / 5))
        per.append({"goal": name, "result": r, "seconds": round(dt, 2)})
        if r == "sat":
            cex = {"args": {"case": case, "start": py2smt.model_value(m, start), "full": py2smt.model_value(m, full),
                            "power": py2smt.model_value(m, power), "dur": py2smt.model_value(m, dur),
                            "t": py2smt.model_value(m, t), "e": py2smt.model_value(m, e)},
                   "message": f"inductive obligation {name} refuted by z3", "kind": "SMT_SAT"}
            status = "REFUTED"
            break
        if r != "unsat":
            status = "UNKNOWN"
    return dict(
        status=status, exhausted=(status != "UNKNOWN"), queries=len(per), queries_unsat=sum(1 for p in per if p["result"] == "unsat"),
        cex=cex, notes=[["curve-inductive", case, p["goal"], p["result"]] for p in per],
        functions=["nrel/hive/model/vehicle/mechatronics/powercurve/tabular_powercurve.py:TabularPowercurve.charge"],
        messages=[{"state": "INFO", "message": f"table_points={len(ys)} step={pc.step_size_seconds}s {per}"}],
        smt={"engine": "z3 " + z3.get_version_string(), "queries": per, "source": it.source_file, "form": "loop invariant, one symbolic iteration"},
    )


def replay_curve_inductive(case, start, full, power, dur, t=0, e=0):
    """a refuted inductive obligation is replayed as an end-to-end run of the real function over the same parameters"""
    pc, unroll, dmax = _curve(case)
    ys = [float(v) for v in pc._charging_rate_kw]
    ok = True
    for d in (float(dur), max(1.0, float(dur) - float(t)), 1.0, 2.0, 59.0, 61.0):
        for s0 in (float(start), float(e)):
            if 0 <= s0 <= float(full):
                ok = ok and _props_concrete(pc, s0, float(full), float(power), d, max(ys))
    return ok
