"""
C13 / C14 harnesses on in-memory street graphs: real OSMRoadNetwork.__init__ (travel times, link table, node cells,
heuristic speed) and real route() (networkx A* inside) executed in the traced function.

Symbolic: length (int metres) of every edge on the alternative paths, constrained only by physical consistency
          length >= straight-line distance between its end cells (hive's own great_circle_distance);
          speed profile chosen by a symbolic index from a finite set (speed is concrete per path so that length/speed
          stays linear: symbolic / symbolic makes z3 answer unknown on the heap comparisons).
CASE = graph (0 diamond with chords, 1 one-way ring with shortcut) * 16 + (origin link, destination link) pair index.

 h_fastest (C14)  travel time of the inner route (end of origin link .. start of destination link) <= minimum over all
                  simple paths between those junctions (enumerated once per graph at import).
 h_connected (C13) first link starts at the origin cell, last link ends at the destination cell, consecutive links join,
                  every link id exists, first/last link ids are the origin/destination links, empty iff equal positions.
"""
import itertools
import os

import h3
import networkx as nx

from vf import boot
from vf.boot import note
from nrel.hive.model.roadnetwork.osm.osm_roadnetwork import OSMRoadNetwork
from nrel.hive.model.entity_position import EntityPosition
from nrel.hive.util.h3_ops import H3Ops
from nrel.hive.util.units import M_TO_KM

CASE = int(os.environ.get("VF_CASE", "0"))
GRAPH = CASE // 16
PAIR = CASE % 16
SPEEDSET = os.environ.get("VF_SPEEDS", "quick")

# junction coordinates (lat, lon), ~150 m apart
XY0 = {0: (39.7500, -104.9900), 1: (39.75135, -104.9900), 2: (39.7500, -104.98825), 3: (39.75135, -104.98825)}
GRAPHS = {
    # diamond 0->1->3 / 0->2->3 with return edges (strongly connected)
    0: dict(xy=XY0, edges=[(0, 1), (1, 3), (0, 2), (2, 3), (3, 0), (1, 0), (2, 0), (3, 1), (3, 2)],
            sym=[(0, 1), (1, 3), (0, 2), (2, 3)]),
    # one-way ring 0->1->3->2->0 with a two-way shortcut 0<->3
    1: dict(xy=XY0, edges=[(0, 1), (1, 3), (3, 2), (2, 0), (0, 3), (3, 0)],
            sym=[(0, 1), (1, 3), (0, 3), (3, 2)]),
    # two-way ring with a PARALLEL edge 0->1 (MultiDiGraph key 1): two spatial-index entries share one link id
    2: dict(xy=XY0, edges=[(0, 1), (1, 0), (1, 3), (3, 1), (3, 2), (2, 3), (2, 0), (0, 2)],
            sym=[(0, 1), (1, 3), (3, 2), (2, 0)], parallel=[(0, 1)]),
}
G = GRAPHS[GRAPH]
EDGES = G["edges"]
SYM = G["sym"]
CELL = {n: h3.geo_to_h3(lat, lon, 15) for n, (lat, lon) in G["xy"].items()}
GC_M = {e: H3Ops.great_circle_distance(CELL[e[0]], CELL[e[1]]) * 1000.0 for e in EDGES}
BASE_L = {e: int(GC_M[e]) + 2 for e in EDGES}
PROFILES = {
    "quick": [(20, 20, 100, 100), (100, 100, 20, 20), (20, 100, 100, 20), (60, 60, 60, 60)],
    "thorough": [(10, 40, 65, 120), (120, 65, 40, 10), (40, 40, 40, 40), (10, 120, 120, 10), (120, 10, 10, 120), (65, 65, 10, 120)],
}[SPEEDSET]
BASE_S = 40
LINK_IDS = [f"{u}-{v}" for (u, v) in EDGES]
# (origin link, destination link) pairs: all ordered pairs of distinct links, first 16 in a fixed order
_DG = nx.DiGraph(EDGES)


def _npaths(a, b):
    u, v = int(a.split("-")[1]), int(b.split("-")[0])
    return 1 if u == v else len(list(nx.all_simple_paths(_DG, u, v)))


def _rev(a):
    u, v = a.split("-")
    return f"{v}-{u}"


# link pairs: the ones with the most alternative inner paths (the search has a real choice), then adjacent links
# (origin link ends where the destination link starts: empty inner path), opposite directions of one street, and more
_ALL = sorted([(a, b) for a in LINK_IDS for b in LINK_IDS if a != b], key=lambda ab: (-_npaths(*ab), ab))
_ADJ = [ab for ab in _ALL if ab[0].split("-")[1] == ab[1].split("-")[0] and ab[1] != _rev(ab[0])]
_OPP = [ab for ab in _ALL if ab[1] == _rev(ab[0])]
_SAME = [(a, a) for a in LINK_IDS[:1]]  # both positions on one link (the route leaves the link and comes back round the block)
PAIRS = []
for ab in _ALL[:5] + _ADJ[:2] + _OPP[:1] + _SAME + _ALL[5:]:
    if ab not in PAIRS:
        PAIRS.append(ab)
PAIRS = PAIRS[:16]
O_LINK, D_LINK = PAIRS[PAIR % len(PAIRS)]


def _graph(L, S):
    g = nx.MultiDiGraph()
    for n, (lat, lon) in G["xy"].items():
        g.add_node(n, y=lat, x=lon)
    for (u, v) in EDGES:
        if (u, v) in SYM:
            g.add_edge(u, v, length=L[(u, v)], speed_kmph=S[(u, v)])
        else:
            # no speed label: hive assigns default_speed_kmph (40 = BASE_S) and derives the travel time itself
            g.add_edge(u, v, length=L[(u, v)])
    for (u, v) in G.get("parallel", ()):
        g.add_edge(u, v, length=L[(u, v)] + 7)
    return g


# warm-up outside tracing (networkx compiles decorated functions with exec on first use).  The search functions are called
# directly as well: a changed route() may not reach them on the warm-up query but reach them later under tracing.
def _warm_networkx():
    g = nx.MultiDiGraph()
    g.add_edge(1, 2, travel_time=1.0, length=1.0)
    g.add_edge(2, 3, travel_time=1.0, length=1.0)
    g.add_edge(3, 1, travel_time=1.0, length=1.0)
    calls = (
        lambda: nx.astar_path(g, 1, 3, heuristic=lambda u, v: 0, weight="travel_time"),
        lambda: nx.astar_path_length(g, 1, 3, heuristic=lambda u, v: 0, weight="travel_time"),
        lambda: nx.shortest_path(g, 1, 3, weight="travel_time"),
        lambda: nx.shortest_path_length(g, 1, 3, weight="travel_time"),
        lambda: nx.dijkstra_path(g, 1, 3, weight="travel_time"),
        lambda: nx.dijkstra_path_length(g, 1, 3, weight="travel_time"),
        lambda: nx.single_source_dijkstra(g, 1, 3, weight="travel_time"),
        lambda: nx.bidirectional_dijkstra(g, 1, 3, weight="travel_time"),
        lambda: nx.bellman_ford_path(g, 1, 3, weight="travel_time"),
        lambda: nx.has_path(g, 1, 3),
        lambda: list(nx.all_simple_paths(g, 1, 3)),
        lambda: nx.is_strongly_connected(g),
        lambda: list(nx.strongly_connected_components(g)),
    )
    for c in calls:
        try:
            c()
        except Exception:
            pass


_warm_networkx()
_net0 = OSMRoadNetwork(_graph(BASE_L, {e: BASE_S for e in EDGES}))
_net0.route(EntityPosition(O_LINK, _net0.link_helper.links[O_LINK].start), EntityPosition(D_LINK, _net0.link_helper.links[D_LINK].end))
_O_END = int(O_LINK.split("-")[1])
_D_START = int(D_LINK.split("-")[0])
if _O_END == _D_START:
    _PATHS = [[]]
else:
    _PATHS = [list(zip(p[:-1], p[1:])) for p in nx.all_simple_paths(_DG, _O_END, _D_START)]
# cells along the origin / destination links (positions in link interiors)
_O_LINE = h3.h3_line(_net0.link_helper.links[O_LINK].start, _net0.link_helper.links[O_LINK].end)
_D_LINE = h3.h3_line(_net0.link_helper.links[D_LINK].start, _net0.link_helper.links[D_LINK].end)


def _build(l0, l1, l2, l3, k):
    Ls = (l0, l1, l2, l3)
    ok = True
    for i, e in enumerate(SYM):
        lo = int(GC_M[e]) + 2
        ok = ok & (lo <= Ls[i]) & (Ls[i] <= 5 * lo)
    if not ok:
        return None
    prof = None
    for i in range(len(PROFILES)):
        if k == i:
            prof = PROFILES[i]
    if prof is None:
        return None
    L = dict(BASE_L)
    S = {e: BASE_S for e in EDGES}
    for i, e in enumerate(SYM):
        L[e] = Ls[i]
        S[e] = prof[i]
    return OSMRoadNetwork(_graph(L, S)), L, S  # ---- real __init__


def _pos(line, link_id, idx):
    for i, j in ((0, 0), (1, len(line) // 2), (2, len(line) - 1)):
        if idx == i:
            return EntityPosition(link_id, line[j])
    return None


# warm-up queries: for every junction n one query whose search ends at n (destination link starts at n) and starts
# as far away as possible, so that a search state kept on the network instance would be populated "towards n"
WARM = []
for _n in sorted(G["xy"]):
    _dl = [l for l in LINK_IDS if int(l.split("-")[0]) == _n]
    _ol = sorted([l for l in LINK_IDS if int(l.split("-")[1]) != _n and l not in _dl], key=lambda l: -_npaths(l, _dl[0]))
    WARM.append((_ol[0], _dl[0]))


def h_fastest(l0: int, l1: int, l2: int, l3: int, k: int, w: int) -> bool:
    """
    pre: 0 <= k <= 5 and 0 <= w <= 3
    post: _
    """
    b = _build(l0, l1, l2, l3, k)
    if b is None:
        return True
    net, L, S = b
    o = EntityPosition(O_LINK, net.link_helper.links[O_LINK].start)
    d = EntityPosition(D_LINK, net.link_helper.links[D_LINK].end)
    # an earlier query towards another destination on the same network instance must not influence this one
    for i in range(len(WARM)):
        if w == i:
            w_o, w_d = WARM[i]
            net.route(EntityPosition(w_o, net.link_helper.links[w_o].start), EntityPosition(w_d, net.link_helper.links[w_d].end))
    route = net.route(o, d)  # ---- real code
    if len(route) < 2:
        return False
    inner = route[1:-1]
    # "a fastest PATH": the inner part joins the end junction of the origin link to the start junction of the destination link
    if _O_END == _D_START:
        if len(inner) != 0:
            return False
    else:
        if len(inner) == 0 or inner[0].start != CELL[_O_END] or inner[-1].end != CELL[_D_START]:
            return False
        for i in range(len(inner) - 1):
            if inner[i].end != inner[i + 1].start:
                return False
    t = 0.0
    for l in inner:
        t = t + l.distance_km / l.speed_kmph
    best = None
    for p in _PATHS:
        c = 0.0
        for e in p:
            c = c + (L[e] * M_TO_KM) / S[e]
        if best is None or c < best:
            best = c
    note("fastest", O_LINK, D_LINK, len(inner))
    return t <= best + 1e-9 * best


def h_connected(l0: int, l1: int, l2: int, l3: int, k: int, oi: int, di: int) -> bool:
    """
    pre: 0 <= k <= 5 and 0 <= oi <= 2 and 0 <= di <= 2
    post: _
    """
    return _connected(l0, l1, l2, l3, k, oi, di, False)


def h_connected_warm(l0: int, l1: int, l2: int, l3: int, k: int, oi: int) -> bool:
    """
    the same after an earlier query on the same network instance between the SAME two links but from / to other cells of them
    (positions: both at the start cells, both in the middle, both at the end cells of their links)
    pre: 0 <= k <= 5 and 0 <= oi <= 2
    post: _
    """
    return _connected(l0, l1, l2, l3, k, oi, oi, True)


def _connected(l0, l1, l2, l3, k, oi, di, w):
    b = _build(l0, l1, l2, l3, k)
    if b is None:
        return True
    net, L, S = b
    o = _pos(_O_LINE, O_LINK, oi)
    d = _pos(_D_LINE, D_LINK, di)
    if o is None or d is None:
        return True
    if w:
        net.route(_pos(_O_LINE, O_LINK, (oi + 1) % 3), _pos(_D_LINE, D_LINK, (di + 2) % 3))
    route = net.route(o, d)  # ---- real code
    note("connected", O_LINK, D_LINK, len(route), oi, di, "warm" if w else "fresh")
    if o == d:
        return len(route) == 0
    if len(route) == 0:
        return False
    if route[0].start != o.geoid or route[-1].end != d.geoid:
        return False
    if route[0].link_id != O_LINK or route[-1].link_id != D_LINK:
        return False
    for i in range(len(route) - 1):
        if route[i].end != route[i + 1].start:
            return False
    for l in route:
        if l.link_id not in net.link_helper.links:
            return False
        if net.link_from_link_id(l.link_id) is None:
            return False
    return True


# ------------------------------------------------------------------------------------- snapping / haversine
_SNAP_CANDS = []
for _k, _lid in enumerate(LINK_IDS):
    _ln = h3.h3_line(_net0.link_helper.links[_lid].start, _net0.link_helper.links[_lid].end)
    _mid = _ln[len(_ln) // 2]
    _SNAP_CANDS += [_ln[0], _mid, _ln[-1]]
    if _k < 4:
        _SNAP_CANDS += sorted(h3.k_ring(_mid, 3) - set(_ln))[:2] + [sorted(h3.k_ring(_mid, 40) - h3.k_ring(_mid, 39))[0]]
assert len(_SNAP_CANDS) <= 48


def h_snap(i: int) -> bool:
    """
    snapping any location yields a position that lies on the link it names (finite candidate set: start / middle / end cell of every link, cells beside and far from the first links; enumeration by forking)
    pre: 0 <= i < 48
    post: _
    """
    g = None
    for k in range(len(_SNAP_CANDS)):
        if i == k:
            g = _SNAP_CANDS[k]
    if g is None:
        return True
    pos = _net0.position_from_geoid(g)  # ---- real code
    if pos is None:
        return False
    link = _net0.link_from_link_id(pos.link_id)
    note("snap", pos.link_id, "exact" if pos.geoid == g else "nearest")
    return link is not None and pos.geoid in h3.h3_line(link.start, link.end)


def h_hav(i: int, j: int) -> bool:
    """
    straight-line network: one link from origin to destination, empty iff equal, link ids invert
    pre: 0 <= i <= 5 and 0 <= j <= 5
    post: _
    """
    from vf.h import arena as A

    a, b = A.cell_of(i), A.cell_of(j)
    if a is None or b is None:
        return True
    route = A.NET.route(A.POS[a], A.POS[b])  # ---- real code
    note("hav", "same" if a == b else "diff", len(route))
    if a == b:
        return len(route) == 0
    if len(route) != 1:
        return False
    l = route[0]
    back = A.NET.link_from_link_id(l.link_id)
    return l.start == A.CELLS[a] and l.end == A.CELLS[b] and back is not None and back.start == l.start and back.end == l.end and l.distance_km > 0
