"""
H11-step: one inductive step of the timed-input pipeline on an arbitrary reader position.

  real UpdateRequestsFromFile.update  (DictReaderStepper / DictReaderIterator, update_requests_from_iterator,
                                       Request.from_row, add_request_safe, report)
  then real CancelRequests.update

Symbolic: clock T, cancel timeout c, a reader positioned arbitrarily = optional `history` row + up to two
unread rows with non-decreasing departure times (ties allowed), up to two requests already waiting with
symbolic departure times (with / without a dispatched vehicle).

Reader invariant (inductive): every pending row has departure >= the previous step's clock; the harness
asserts the post-state re-establishes it for T (nothing with departure < T stays pending, nothing with
departure >= T is consumed).

H11-price: one inductive step of the real ChargingPriceUpdate.update, rows keyed by station id (CASE 0)
or by geoid (CASE 1: the search cell of s0/s2, a finer cell holding only s0, a coarser cell holding all).
"""
import os
from dataclasses import replace

import h3
import immutables

from vf import boot
from vf.boot import note, feq
from vf.h import arena as A
from vf.h import inv as I
from vf.h import stubs
from vf.h.stubs import SymTime, mk_time

from nrel.hive.util.iterators import DictReaderStepper
from nrel.hive.state.simulation_state.update.update_requests_from_file import UpdateRequestsFromFile
from nrel.hive.state.simulation_state.update.cancel_requests import CancelRequests
from nrel.hive.state.simulation_state.update.charging_price_update import ChargingPriceUpdate
from nrel.hive.model.request.request_rate_structure import RequestRateStructure
from nrel.hive.state.simulation_state import simulation_state_ops as sso
from nrel.hive.model.request import request as request_module
from nrel.hive.model.sim_time import SimTime

CASE = int(os.environ.get("VF_CASE", "0"))

if boot.SYMBOLIC:
    # Request.from_row parses the departure time with SimTime.build; building the int subclass from a
    # symbolic int would realise it, so inside the harness the parser is the identity into SymTime
    class _SimTimeShim:
        @staticmethod
        def build(v):
            return SymTime(v)

    request_module.SimTime = _SimTimeShim


def _parser(v):
    return mk_time(v) if boot.SYMBOLIC else SimTime.build(v)


def _row(rid, dep):
    return {
        "request_id": rid,
        "o_lat": "39.7600",
        "o_lon": "-104.980",
        "d_lat": "39.7650",
        "d_lon": "-104.985",
        "departure_time": dep if boot.SYMBOLIC else str(dep),
        "passengers": "1",
    }


def _env(c):
    cfg = A.ENV0.config
    cfg = cfg._replace(sim=cfg.sim._replace(request_cancel_time_seconds=c))
    env, rec = A.env_with_recorder(A.ENV0._replace(config=cfg))
    return env, rec


# h_step: CASE = history present (0/1) * 9 + unread rows (0..2) * 3 + waiting requests (0..2)
HP = (CASE // 9) % 2 == 1
N_UNREAD = (CASE // 3) % 3
NW = CASE % 3


def h_step(T: int, c: int, dh: int, d1: int, d2: int, w1: int, w2: int, w1d: bool) -> bool:
    """
    pre: 0 <= dh and dh <= d1 and d1 <= d2 and 1 <= T and 0 <= c
    pre: 0 <= w1 and 0 <= w2 and T <= 2000000000 and d2 <= 2000000000 and c <= 100000000
    post: _
    """
    has_h, n_unread, nw = HP, N_UNREAD, NW
    rows = []
    if n_unread >= 1:
        rows.append(_row("u1", d1))
    if n_unread >= 2:
        rows.append(_row("u2", d2))
    stepper = DictReaderStepper.from_iterator(iter(rows), "departure_time", parser=_parser)
    if has_h:
        stepper._iterator.history = _row("h", dh)
    pending = ([("h", dh)] if has_h else []) + [("u1", d1), ("u2", d2)][: (2 if n_unread >= 2 else (1 if n_unread >= 1 else 0))]
    # requests already waiting (admitted in earlier steps: departure < T)
    sim = A.SIM0._replace(sim_time=mk_time(T))
    waiting = []
    if nw >= 1:
        if not (w1 < T):
            return True
        r = replace(A.R0, id="w1", departure_time=mk_time(w1))
        if w1d:
            r = r.assign_dispatched_vehicle("v9", mk_time(0))
        sim = sso.add_request_safe(sim, r).unwrap()
        waiting.append(("w1", w1))
    if nw >= 2:
        if not (w2 < T):
            return True
        sim = sso.add_request_safe(sim, replace(A.R1, id="w2", departure_time=mk_time(w2))).unwrap()
        waiting.append(("w2", w2))
    env, rec = _env(c)
    upd = UpdateRequestsFromFile(reader=stepper, rate_structure=RequestRateStructure())

    sim1, _ = upd.update(sim, env)  # ---- real code
    sim2, _ = CancelRequests().update(sim1, env)  # ---- real code

    # expected: consume the maximal prefix of pending rows with departure < T
    consumed = []
    rest = []
    stop = False
    for rid, dep in pending:
        if not stop and dep < T:
            consumed.append((rid, dep))
        else:
            stop = True
            rest.append((rid, dep))
    admitted = [rid for rid, dep in consumed if dep + c > T]
    cancelled = [rid for rid, dep in waiting if T >= dep + c]
    note("consumed", len(consumed), "admitted", len(admitted), "cancelled", len(cancelled), "history" if has_h else "nohist")
    adds = [r.report["request_id"] for r in rec.reports if r.report_type.name == "ADD_REQUEST_EVENT"]
    cancels = [r.report["request_id"] for r in rec.reports if r.report_type.name == "CANCEL_REQUEST_EVENT"]
    if adds != admitted:
        return False
    if sorted(cancels) != sorted(cancelled):
        return False
    expect_ids = set(rid for rid, _ in waiting if rid not in cancelled) | set(admitted)
    if set(sim2.requests.keys()) != expect_ids:
        return False
    if not I.idx_ok(sim2):
        return False
    # the reader: first unconsumed row (if one was looked at) is remembered, nothing behind it was read
    hist = stepper._iterator.history
    if rest:
        if hist is None or hist["request_id"] != rest[0][0]:
            return False
        left = [r["request_id"] for r in stepper._iterator.reader]
        if left != [rid for rid, _ in rest[1:]]:
            return False
    else:
        if hist is not None:
            return False
    # admitted requests carry their departure time; untouched waiting requests are unchanged objects
    for rid, dep in consumed:
        if rid in admitted and not (sim2.requests[rid].departure_time == dep):
            return False
    for rid, _ in waiting:
        if rid not in cancelled and sim2.requests[rid] is not sim.requests[rid]:
            return False
    return sim2.sim_time == T


def h_step_reach(T: int, c: int, dh: int, d1: int, d2: int, w1: int, w2: int, w1d: bool) -> bool:
    """
    reachability twin (must be refuted): a step that both admits and cancels (run with CASE 16: history, 2 unread, 1 waiting)
    pre: 0 <= dh and dh <= d1 and d1 <= d2 and 1 <= T and 0 <= c
    pre: 0 <= w1 and 0 <= w2 and T <= 2000000000 and d2 <= 2000000000 and c <= 100000000
    post: _
    """
    if not (w1 < T):
        return True
    return not (dh < T and dh + c > T and d1 >= T and T >= w1 + c)


# ------------------------------------------------------------------------------------- prices
CELL_G = h3.geo_to_h3(39.75412, -104.974, 15)  # ~24 m north of A: same search cell (res 10), other res-12 cell
assert h3.h3_to_parent(CELL_G, 10) == h3.h3_to_parent(A.CELL_A, 10)
assert h3.h3_to_parent(CELL_G, 12) != h3.h3_to_parent(A.CELL_A, 12)
S2 = replace(A.S1, id="s2", position=A.NET.position_from_geoid(CELL_G))
SIM_P = sso.add_station_safe(A.SIM0, S2).unwrap()
GEO_KEYS = (
    h3.h3_to_parent(A.CELL_A, 10),  # the search cell: holds s0 and s2
    h3.h3_to_parent(A.CELL_A, 12),  # finer than the search resolution: holds s0 only
    h3.h3_to_parent(A.CELL_A, 7),  # coarser than the search resolution (343 search cells)
    h3.h3_to_parent(A.CELL_F, 10),  # a region without stations
)
ID_KEYS = ("s0", "s1", "s2", "unknown")
STATIONS = ("s0", "s1", "s2")


def _names(key, sid):
    """does the row key name station sid"""
    if CASE == 0:
        return key == sid
    g = SIM_P.stations[sid].geoid
    return h3.h3_to_parent(g, h3.h3_get_resolution(key)) == key


def _key(i):
    keys = ID_KEYS if CASE == 0 else GEO_KEYS
    for k in range(4):
        if i == k:
            return keys[k]
    return None


def _plug(i):
    if i == 0:
        return "LEVEL_2"
    if i == 1:
        return "DCFC"
    return None


def h_price(T: int, n: int, t1: int, t2: int, k1: int, k2: int, p1: int, p2: int, x1: float, x2: float, x0: float) -> bool:
    """
    pre: 1 <= n <= 2 and 0 <= t1 and t1 <= t2 and 1 <= T and T <= 2000000000 and t2 <= 2000000000
    pre: 0 <= k1 <= 3 and 0 <= k2 <= 3 and 0 <= p1 <= 1 and 0 <= p2 <= 1
    pre: 0 <= x1 <= 10 and 0 <= x2 <= 10 and 0 <= x0 <= 10
    post: _
    """
    ka, kb, pa, pb = _key(k1), _key(k2), _plug(p1), _plug(p2)
    if ka is None or kb is None or pa is None or pb is None:
        return True
    col = "station_id" if CASE == 0 else "geoid"
    rows = [{"time": t1 if boot.SYMBOLIC else str(t1), col: ka, "charger_id": pa, "price_kwh": x1}]
    if n >= 2:
        rows.append({"time": t2 if boot.SYMBOLIC else str(t2), col: kb, "charger_id": pb, "price_kwh": x2})
    if CASE == 1 and n >= 2 and ka != kb:
        # two different regions naming one station: which one wins is not defined by the statement
        for sid in STATIONS:
            if _names(ka, sid) and _names(kb, sid):
                return True
    stepper = DictReaderStepper.from_iterator(iter(rows), "time", parser=_parser)
    # every plug starts at price x0
    sim = SIM_P._replace(sim_time=mk_time(T))
    for sid in STATIONS:
        st = sim.stations[sid]
        st = replace(st, state=immutables.Map({k: cs._replace(price_per_kwh=x0) for k, cs in st.state.items()}))
        sim = sim._replace(stations=sim.stations.set(sid, st))
    env, rec = A.env_with_recorder()
    upd = ChargingPriceUpdate(reader=stepper, use_defaults=False)

    sim2, _ = upd.update(sim, env)  # ---- real code; must return normally

    applied = [(ka, pa, x1)] if t1 < T else []
    if n >= 2 and t1 < T and t2 < T:
        applied.append((kb, pb, x2))
    note("applied", len(applied), "ids" if CASE == 0 else "geoids", ka if CASE == 0 else GEO_KEYS.index(ka))
    for sid in STATIONS:
        for plug, cs in sim2.stations[sid].state.items():
            expect = x0
            for key, p, x in applied:
                if p == plug and _names(key, sid):
                    expect = x
            if not feq(cs.price_per_kwh, expect):
                return False
    return True


# ------------------------------------------------------------------------------------- C01: price keys in any order
class _KeyedUpdate:
    """stands in for the accumulated immutables.Map of one price step: same lookups, keys() in a solver-chosen order"""

    def __init__(self, data, perm):
        self.data = data
        self.perm = perm

    def keys(self):
        return stubs.OrderedView(tuple(self.data.keys()), self.perm)

    def __getitem__(self, k):
        return self.data[k]

    def __len__(self):
        return len(self.data)


def h_price_order(p: int, q: int, x0: float, x1: float, x2: float) -> bool:
    """
    three keys naming station s0 (search cell, finer cell, coarser cell) with different prices: the station-level
    update computed by the real _map_to_station_ids must not depend on the order in which the keys are visited
    pre: 0 <= p <= 5 and 0 <= q <= 5 and p < q and 0 <= x0 <= 10 and 0 <= x1 <= 10 and 0 <= x2 <= 10
    post: _
    """
    from nrel.hive.state.simulation_state.update import charging_price_update as cpu

    pa, pb = stubs.perm_of(p, 3), stubs.perm_of(q, 3)
    if pa is None or pb is None:
        return True
    data = {
        GEO_KEYS[0]: immutables.Map({"LEVEL_2": x0}),
        GEO_KEYS[1]: immutables.Map({"LEVEL_2": x1}),
        GEO_KEYS[2]: immutables.Map({"LEVEL_2": x2}),
    }
    ra = cpu._map_to_station_ids(_KeyedUpdate(data, pa), SIM_P)  # ---- real code
    rb = cpu._map_to_station_ids(_KeyedUpdate(data, pb), SIM_P)
    note("price-order", len(ra))
    if set(ra.keys()) != set(rb.keys()):
        return False
    for k in ra.keys():
        if not (ra[k]["LEVEL_2"] == rb[k]["LEVEL_2"]):
            return False
    return True
