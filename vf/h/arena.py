"""
The arena: a small concrete world built through hive's own constructors at import time
(outside CrossHair tracing), plus builders that assemble a *symbolic* pre-state from
solver-chosen parameters.

Conventions
  * ids / cells / plug names are decoded from (possibly symbolic) ints by if-chains, so
    every path sees concrete keys (h3, immutables.Map are C code) while the solver decides
    which combinations are feasible;
  * counters, clock values, energies stay symbolic;
  * "ghosts" are unmodelled vehicles occupying plugs / queue slots / stalls: they make a
    one-step harness inductive for fleets of any size.
"""
from __future__ import annotations

import uuid
from dataclasses import replace
from typing import Optional

import h3
import immutables

from vf import boot
from vf.boot import note

from nrel.hive.resources import mock_lobster as ml
from nrel.hive.model.energy.energytype import EnergyType
from nrel.hive.model.membership import Membership
from nrel.hive.model.sim_time import SimTime
from nrel.hive.model.entity_position import EntityPosition
from nrel.hive.state.simulation_state import simulation_state_ops as sso
from nrel.hive.state.vehicle_state.idle import Idle
from nrel.hive.state.vehicle_state.out_of_service import OutOfService
from nrel.hive.state.vehicle_state.repositioning import Repositioning
from nrel.hive.state.vehicle_state.charging_station import ChargingStation
from nrel.hive.state.vehicle_state.charge_queueing import ChargeQueueing
from nrel.hive.state.vehicle_state.reserve_base import ReserveBase
from nrel.hive.state.vehicle_state.charging_base import ChargingBase
from nrel.hive.state.vehicle_state.dispatch_station import DispatchStation
from nrel.hive.state.vehicle_state.dispatch_base import DispatchBase
from nrel.hive.state.vehicle_state.dispatch_trip import DispatchTrip
from nrel.hive.state.vehicle_state.servicing_trip import ServicingTrip
from nrel.hive.state.vehicle_state.servicing_pooling_trip import ServicingPoolingTrip
from nrel.hive.state.vehicle_state.dispatch_pooling_trip import DispatchPoolingTrip
from nrel.hive.model.vehicle.trip_phase import TripPhase
from nrel.hive.dispatcher.instruction.instructions import (
    IdleInstruction,
    DispatchTripInstruction,
    DispatchStationInstruction,
    ChargeStationInstruction,
    ChargeBaseInstruction,
    DispatchBaseInstruction,
    RepositionInstruction,
    ReserveBaseInstruction,
    OutOfServiceInstruction,
    DispatchPoolingTripInstruction,
)

E = EnergyType.ELECTRIC
G = EnergyType.GASOLINE

# ------------------------------------------------------------------ concrete scenery
from nrel.hive.model.vehicle.mechatronics.powercurve.tabular_powercurve import TabularPowercurve as _TPC

# the arena's electric vehicle uses hive's real TabularPowercurve class with a 4-point table
# (the shipped 41-point table is the subject of the C04 curve harness; here it would only
# multiply paths by the number of table segments per integration sub-step)
_CURVE4 = _TPC(
    data={
        "name": "arena4",
        "power_type": "electric",
        "step_size_seconds": 60,
        "power_curve": [
            {"energy_kwh": 0.0, "power_kw": 1.0},
            {"energy_kwh": 0.5, "power_kw": 1.0},
            {"energy_kwh": 0.8, "power_kw": 0.5},
            {"energy_kwh": 1.0, "power_kw": 0.1},
        ],
    },
    nominal_max_charge_kw=50,
    battery_capacity_kwh=50,
)
BEV = replace(ml.mock_bev(), powercurve=_CURVE4)
ICE = ml.mock_ice()
CHARGERS = {
    "LEVEL_1": ml.mock_l1_charger(),
    "LEVEL_2": ml.mock_l2_charger(),
    "DCFC": ml.mock_dcfc_charger(),
    "gas_pump": ml.mock_gasoline_pump(),
}
ENV0 = ml.mock_env(fleet_ids=frozenset(), mechatronics={"bev": BEV, "ice": ICE}, chargers=CHARGERS)
NET = ml.mock_network()

CELL_A = h3.geo_to_h3(39.7539, -104.974, 15)  # station s0
CELL_B = h3.geo_to_h3(39.7579, -104.978, 15)  # base b0 + station s1
CELL_C = h3.geo_to_h3(39.7600, -104.980, 15)  # origin of r0, r1
CELL_D = h3.geo_to_h3(39.7650, -104.985, 15)  # destination of r0
CELL_E = sorted(h3.k_ring(CELL_A, 1) - {CELL_A})[0]  # neighbour of A, same search cell; base b1
CELL_F = h3.geo_to_h3(39.7450, -104.990, 15)  # destination of r1
CELLS = (CELL_A, CELL_B, CELL_C, CELL_D, CELL_E, CELL_F)
CELL_NAME = ("A", "B", "C", "D", "E", "F")
SEARCH_RES = 10
assert h3.h3_to_parent(CELL_A, SEARCH_RES) == h3.h3_to_parent(CELL_E, SEARCH_RES)
assert len({h3.h3_to_parent(c, SEARCH_RES) for c in CELLS}) == 5

POS = tuple(NET.position_from_geoid(c) for c in CELLS)

PLUGS = ("LEVEL_2", "DCFC", "NOPE", "gas_pump")  # NOPE: not installed anywhere / unknown to env

S0 = ml.mock_station_from_geoid(
    "s0", CELL_A, chargers={"LEVEL_2": 1, "DCFC": 1, "gas_pump": 1}, env=ENV0
)
# the fast charger at s0 is throttled to 30 kW (Station.set_charger_rate): below the power curve's 50 kW peak
S0 = S0.set_charger_rate("DCFC", 30.0).unwrap()
S1 = ml.mock_station_from_geoid("s1", CELL_B, chargers={"LEVEL_2": 1}, env=ENV0)
B0 = ml.mock_base_from_geoid("b0", CELL_B, station_id="s1", stall_count=3)
B1 = ml.mock_base_from_geoid("b1", CELL_E, station_id=None, stall_count=1)
B2 = ml.mock_base_from_geoid("b2", CELL_F, station_id="s0", stall_count=1)  # a base whose station stands elsewhere (s0 @ A)
R0 = ml.mock_request_from_geoids("r0", CELL_C, CELL_D, value=7, passengers=2)  # two passengers: one request, one event
R1 = ml.mock_request_from_geoids("r1", CELL_C, CELL_F, value=5)
RB = ml.mock_request_from_geoids("rb", CELL_C, CELL_D, value=9, passengers=2)  # the request already on board
V0 = ml.mock_vehicle_from_geoid("v0", CELL_A)
V1 = ml.mock_vehicle_from_geoid("v1", CELL_A)
V2 = ml.mock_vehicle_from_geoid("v10", CELL_A)  # lexicographic trap: "v10" < "v2"
V0_ICE = ml.mock_vehicle_from_geoid("v0", CELL_A, mechatronics=ICE)

SIM0 = ml.mock_sim(stations=(S0, S1), bases=(B0, B1, B2), h3_search_res=SEARCH_RES)
T0 = SIM0.sim_time
UUID0 = uuid.UUID(int=7)

# routes between every ordered pair of arena cells (haversine: one link or empty)
ROUTE = {(i, j): NET.route(POS[i], POS[j]) for i in range(6) for j in range(6)}

MEMBERSHIPS = (
    Membership(),
    Membership.from_tuple(("f1",)),
    Membership.from_tuple(("f2",)),
    Membership.from_tuple(("f1", "f2")),
    Membership.from_tuple(("v9_private_b0",)),  # private home-base membership of some other vehicle
)
MEMB_NAME = ("public", "f1", "f2", "f1f2", "private_other")


class Rec:
    """recording reporter (the real Reporter.file_report is the same one-liner)"""

    def __init__(self):
        self.reports = []
        self.handlers = []

    def file_report(self, r):
        self.reports.append(r)

    def flush(self, rp):
        self.reports = []

    def of(self, name):
        return [r for r in self.reports if r.report_type.name == name]


def env_fingerprint():
    """the environment's shared model tables (power curve, powertrain): stepping must never modify them"""
    out = []
    for m in (BEV, ICE):
        pt = m.powertrain
        out.append(tuple(float(x) for x in pt.consumption_speed))
        out.append(tuple(float(x) for x in pt.consumption_energy_per_distance))
    pc = BEV.powercurve
    out.append(tuple(float(x) for x in pc._charging_energy_kwh))
    out.append(tuple(float(x) for x in pc._charging_rate_kw))
    return tuple(out)


ENV_FP0 = env_fingerprint()


def env_with_recorder(env=ENV0):
    rec = Rec()
    return env._replace(reporter=rec), rec


# ------------------------------------------------------------------ decoders
def cell_of(i):
    if i == 0:
        return 0
    if i == 1:
        return 1
    if i == 2:
        return 2
    if i == 3:
        return 3
    if i == 4:
        return 4
    if i == 5:
        return 5
    return None


def plug_of(i):
    if i == 0:
        return "LEVEL_2"
    if i == 1:
        return "DCFC"
    if i == 2:
        return "NOPE"
    if i == 3:
        return "gas_pump"
    return None


def memb_of(i):
    if i == 0:
        return 0
    if i == 1:
        return 1
    if i == 2:
        return 2
    if i == 3:
        return 3
    if i == 4:
        return 4
    return None


KIND_NAMES = (
    "Idle",
    "OutOfService",
    "Repositioning",
    "ChargingStation",
    "ChargeQueueing",
    "ReserveBase",
    "ChargingBase",
    "DispatchStation",
    "DispatchBase",
    "DispatchTrip",
    "ServicingTrip",
    "ServicingPoolingTrip",
    "DispatchPoolingTrip",
)
N_KINDS = len(KIND_NAMES)
# cell index each activity's target lives at (None: no target)
KIND_TARGET_CELL = {2: 1, 3: 0, 4: 0, 5: 1, 6: 1, 7: 0, 8: 1, 9: 2, 10: 3, 11: 3, 12: 2}


def kind_of_state(st) -> int:
    return KIND_NAMES.index(st.__class__.__name__)


class VSpec:
    """parameters of one modelled vehicle (fields may be symbolic ints / floats)"""

    def __init__(self, vid, kind, cell, plug=0, memb=0, ice=False, energy=None, enq=0, human=0):
        self.vid = vid
        self.kind = kind  # concrete int (case split) or decoded
        self.cell = cell  # concrete int after cell_of
        self.plug = plug  # concrete name after plug_of
        self.memb = memb  # concrete int after memb_of
        self.ice = ice
        self.energy = energy
        self.enq = enq
        self.human = human


class World:
    """what the harness needs to evaluate INV: ghost counts and symbolic totals"""

    def __init__(self):
        self.tot = {}  # (station, plug) -> total
        self.ghost_c = {}  # (station, plug) -> ghosts charging
        self.ghost_q = {}  # (station, plug) -> ghosts queueing
        self.stall_tot = {}
        self.stall_ghost = {}
        self.r0_disp = None
        self.sim = None
        self.vids = ()


def base_vehicle(vid, ice=False):
    if vid == "v0":
        return V0_ICE if ice else V0
    if vid == "v1":
        return V1
    return V2


def make_state(sp: VSpec, time0=T0):
    """build the activity object for a vehicle spec; None if the spec violates I-loc"""
    k, c, vid = sp.kind, sp.cell, sp.vid
    if k == 0:
        return Idle.build(vid)
    if k == 1:
        return OutOfService.build(vid)
    if k == 2:
        return Repositioning.build(vid, ROUTE[(c, 1)])
    if k == 3:
        if c != 0:
            return None
        return ChargingStation.build(vid, "s0", sp.plug)
    if k == 4:
        if c != 0:
            return None
        return ChargeQueueing.build(vid, "s0", sp.plug, sp.enq)
    if k == 5:
        if c != 1:
            return None
        return ReserveBase.build(vid, "b0")
    if k == 6:
        if c != 1:
            return None
        return ChargingBase.build(vid, "b0", "LEVEL_2")
    if k == 7:
        return DispatchStation.build(vid, "s0", ROUTE[(c, 0)], sp.plug)
    if k == 8:
        return DispatchBase.build(vid, "b0", ROUTE[(c, 1)])
    if k == 9:
        return DispatchTrip.build(vid, "r0", ROUTE[(c, 2)])
    if k == 10:
        return ServicingTrip.build(vid, RB, time0, ROUTE[(c, 3)])
    if k == 11:
        # pooling trip with one boarded request still to be dropped off at D
        plan = ((RB.id, TripPhase.DROPOFF),) if c != 3 else ()
        routes = (ROUTE[(c, 3)],) if c != 3 else ()
        return ServicingPoolingTrip.build(
            vid, plan, immutables.Map({RB.id: RB}), immutables.Map({RB.id: time0}), routes, 1
        )
    if k == 12:
        # a plan over two waiting requests (r0 and r1 both start at C): enter records the vehicle on both, exit clears both
        plan = (("r0", TripPhase.PICKUP), ("r1", TripPhase.PICKUP), ("r0", TripPhase.DROPOFF), ("r1", TripPhase.DROPOFF))
        return DispatchPoolingTrip.build(vid, plan, ROUTE[(c, 2)])
    return None


def build_world(
    specs,
    tot_l2,
    g_l2,
    q_l2,
    stall_tot,
    stall_g,
    r0_disp=0,
    r0_present=True,
    r1_present=True,
    s0_memb=0,
    b0_memb=0,
    r0_memb=0,
    tot_dc=1,
    g_dc=0,
    q_dc=0,
    tot_gas=1,
    s1_tot=1,
    s1_g=0,
    s1_memb=0,
    r0_zero=False,
    sim_time=None,
    dt=None,
    price_l2=None,
    pool=False,
) -> Optional[World]:
    """
    assemble a pre-state satisfying INV from (symbolic) parameters; None if the parameters
    do not describe an INV-state (the harness then returns True: outside the precondition).

    r0_disp: 0 none, 1 v0, 2 v1, 3 a ghost vehicle id
    """
    w = World()
    used = {("s0", "LEVEL_2"): g_l2, ("s0", "DCFC"): g_dc, ("s0", "gas_pump"): 0, ("s1", "LEVEL_2"): s1_g}
    queued = {("s0", "LEVEL_2"): q_l2, ("s0", "DCFC"): q_dc, ("s0", "gas_pump"): 0, ("s1", "LEVEL_2"): 0}
    stalls_used = stall_g
    # numeric validity is accumulated with & / | (no path fork per conjunct under CrossHair)
    valid = (g_l2 >= 0) & (q_l2 >= 0) & (tot_l2 >= 0) & (stall_tot >= 0) & (stall_g >= 0)
    valid = valid & (g_dc >= 0) & (q_dc >= 0) & (tot_dc >= 0) & (tot_gas >= 0) & (s1_tot >= 0) & (s1_g >= 0)
    vehicles = []
    for sp in specs:
        st = make_state(sp, sim_time if sim_time is not None else T0)
        if st is None:
            return None
        k = sp.kind
        if k in (3, 4, 7):
            # INV: the plug of a (dispatch-to-)station activity is installed there and fits the vehicle
            # (ChargingStation.enter / DispatchStation.enter refuse anything else)
            if sp.plug == "NOPE":
                return None
            if sp.plug == "gas_pump" and not sp.ice:
                return None
            if sp.plug != "gas_pump" and sp.ice:
                return None
        if k == 3:
            used[("s0", sp.plug)] = used[("s0", sp.plug)] + 1
        elif k == 4:
            queued[("s0", sp.plug)] = queued[("s0", sp.plug)] + 1
        elif k == 5:
            stalls_used = stalls_used + 1
        elif k == 6:
            if sp.ice:
                return None
            stalls_used = stalls_used + 1
            used[("s1", "LEVEL_2")] = used[("s1", "LEVEL_2")] + 1
        base = base_vehicle(sp.vid, sp.ice)
        v = replace(base, position=POS[sp.cell], vehicle_state=st, membership=MEMBERSHIPS[sp.memb])
        if sp.energy is not None:
            et = G if sp.ice else E
            v = replace(v, energy=immutables.Map({et: sp.energy}))
        vehicles.append(v)
    totals = {("s0", "LEVEL_2"): tot_l2, ("s0", "DCFC"): tot_dc, ("s0", "gas_pump"): tot_gas, ("s1", "LEVEL_2"): s1_tot}
    for key in used:
        valid = valid & (used[key] <= totals[key])
    valid = valid & (stalls_used <= stall_tot)
    if not valid:
        return None

    def cs(station, plug):
        c0 = station.state[plug]
        key = (station.id, plug)
        return c0._replace(
            total_chargers=totals[key],
            available_chargers=totals[key] - used[key],
            enqueued_vehicles=queued[key],
        )

    s0_state = S0.state.set("LEVEL_2", cs(S0, "LEVEL_2")).set("DCFC", cs(S0, "DCFC")).set("gas_pump", cs(S0, "gas_pump"))
    if price_l2 is not None:
        s0_state = s0_state.set("LEVEL_2", s0_state["LEVEL_2"]._replace(price_per_kwh=price_l2))
    s0 = replace(S0, state=s0_state, membership=MEMBERSHIPS[s0_memb])
    s1 = replace(S1, state=S1.state.set("LEVEL_2", cs(S1, "LEVEL_2")), membership=MEMBERSHIPS[s1_memb])
    b0 = replace(B0, total_stalls=stall_tot, available_stalls=stall_tot - stalls_used, membership=MEMBERSHIPS[b0_memb])
    sim = SIM0._replace(
        stations=SIM0.stations.set("s0", s0).set("s1", s1),
        bases=SIM0.bases.set("b0", b0),
    )
    if sim_time is not None:
        sim = sim._replace(sim_time=sim_time)
    if dt is not None:
        sim = sim._replace(sim_timestep_duration_seconds=dt)
    for v in vehicles:
        sim = sso.add_vehicle_safe(sim, v).unwrap()
    if r0_present:
        r0 = replace(R0, membership=MEMBERSHIPS[r0_memb], allows_pooling=True if pool else False)
        if r0_zero:
            # a zero-length trip: destination == origin
            r0 = replace(r0, destination_position=r0.position,
                         passengers=tuple(replace(p, destination=r0.position.geoid) for p in r0.passengers))
        if r0_disp == 1:
            r0 = r0.assign_dispatched_vehicle("v0", T0)
        elif r0_disp == 2:
            r0 = r0.assign_dispatched_vehicle("v1", T0)
        elif r0_disp == 3:
            r0 = r0.assign_dispatched_vehicle("ghost", T0)
        elif r0_disp != 0:
            return None
        sim = sso.add_request_safe(sim, r0).unwrap()
    if r1_present:
        # a vehicle en route on a pooling plan is recorded on every request of the plan (DispatchPoolingTrip.enter)
        pooled = [sp.vid for sp in specs if sp.kind == 12]
        r1 = R1.assign_dispatched_vehicle(pooled[0], T0) if (pooled and r0_present and r0_disp == 1 and pooled[0] == "v0") else R1
        if pool:
            r1 = replace(r1, allows_pooling=True)
        sim = sso.add_request_safe(sim, r1).unwrap()
    w.sim = sim
    w.tot = totals
    w.ghost_c = {("s0", "LEVEL_2"): g_l2, ("s0", "DCFC"): g_dc, ("s0", "gas_pump"): 0, ("s1", "LEVEL_2"): s1_g}
    w.ghost_q = {("s0", "LEVEL_2"): q_l2, ("s0", "DCFC"): q_dc, ("s0", "gas_pump"): 0, ("s1", "LEVEL_2"): 0}
    w.stall_tot = {"b0": stall_tot, "b1": 1, "b2": 1}
    w.stall_ghost = {"b0": stall_g, "b1": 0, "b2": 0}
    w.r0_disp = r0_disp
    w.vids = tuple(sp.vid for sp in specs)
    return w


INSTR_NAMES = (
    "Idle",
    "DispatchTrip",
    "DispatchStation",
    "ChargeStation",
    "ChargeBase",
    "DispatchBase",
    "ReserveBase",
    "OutOfService",
    "Reposition",
    "DispatchStation_s1",
    "ChargeStation_s1",
    "DispatchBase_b1",
    "ReserveBase_b1",
    "DispatchTrip_missing",
    "ChargeBase_b1",
    "DispatchPoolingTrip",
    "ChargeBase_b2",
    "DispatchPoolingTrip_allowed",
)
N_INSTR = len(INSTR_NAMES)
# kind the instruction leads to when accepted (DispatchStation may shortcut to ChargingStation)
INSTR_TARGET_KIND = {0: (0,), 1: (9,), 2: (7, 3), 3: (3,), 4: (6,), 5: (8,), 6: (5,), 7: (1,), 8: (2,), 9: (7, 3), 10: (3,), 11: (8,), 12: (5,), 13: (9,), 14: (6,), 15: (12,), 16: (6,), 17: (12,)}


def instruction(ik: int, plug: str, vid="v0"):
    if ik == 0:
        return IdleInstruction(vid)
    if ik == 1:
        return DispatchTripInstruction(vid, "r0")
    if ik == 2:
        return DispatchStationInstruction(vid, "s0", plug)
    if ik == 3:
        return ChargeStationInstruction(vid, "s0", plug)
    if ik == 4:
        return ChargeBaseInstruction(vid, "b0", plug)
    if ik == 5:
        return DispatchBaseInstruction(vid, "b0")
    if ik == 6:
        return ReserveBaseInstruction(vid, "b0")
    if ik == 7:
        return OutOfServiceInstruction(vid)
    if ik == 8:
        return RepositionInstruction(vid, POS[3].link_id)
    if ik == 9:
        return DispatchStationInstruction(vid, "s1", plug)
    if ik == 10:
        return ChargeStationInstruction(vid, "s1", plug)
    if ik == 11:
        return DispatchBaseInstruction(vid, "b1")
    if ik == 12:
        return ReserveBaseInstruction(vid, "b1")
    if ik == 13:
        return DispatchTripInstruction(vid, "r_missing")
    if ik == 14:
        return ChargeBaseInstruction(vid, "b1", plug)
    if ik in (15, 17):
        # (17: the same plan in a world whose requests allow pooling -- the only way the instruction can be accepted)
        # a plan over two requests: r0 (membership varies with the scenario) and r1 (always public)
        return DispatchPoolingTripInstruction(
            vid, (("r0", TripPhase.PICKUP), ("r1", TripPhase.PICKUP), ("r0", TripPhase.DROPOFF), ("r1", TripPhase.DROPOFF))
        )
    if ik == 16:
        return ChargeBaseInstruction(vid, "b2", plug)
    return None

from vf.h import arena_meta as _M

assert _M.KIND_NAMES == KIND_NAMES and _M.INSTR_NAMES == INSTR_NAMES
