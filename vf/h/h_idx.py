"""
H08-ops: one real simulation_state_ops operation on an arbitrary index-consistent pre-state.

CASE = entity kind (0 vehicle, 1 request, 2 station, 3 base) * 4 + op (0 add, 1 modify, 2 remove, 3 pop[vehicle only])
Symbolic: cells of up to two entities of the kind (A, E [same search cell as A], B, C, a rim cell of A's search cell), presence of the
second, which id the operation names (present ones or an absent id), the new cell, and
whether a non-positional attribute changes.

The pre-state's eight index maps are computed by the harness's own image function (not by hive),
so the step is inductive: I-idx(pre) and one real operation  =>  I-idx(post).
"""
import os
from dataclasses import replace

import h3
import immutables

from vf import boot
from vf.boot import note
from vf.h import arena as A
from vf.h import inv as I
from nrel.hive.state.simulation_state import simulation_state_ops as sso
from returns.result import Failure

CASE = int(os.environ.get("VF_CASE", "0"))
EK = CASE // 4
OP = CASE % 4
EK_NAME = ("vehicle", "request", "station", "base")
OP_NAME = ("add", "modify", "remove", "pop")
CELL_IDX = (0, 4, 1, 2)  # A, E (same search cell as A), B, C
# ... and a cell on the RIM of A's search cell: its centroid, re-indexed at the search resolution, falls into the neighbouring
# search hexagon (about 6 % of the fine cells), so "parent cell" and "cell of the centre point" disagree
RIM = [c for c in sorted(h3.k_ring(A.CELL_A, 80))
       if h3.h3_to_parent(c, A.SEARCH_RES) == h3.h3_to_parent(A.CELL_A, A.SEARCH_RES)
       and h3.geo_to_h3(*h3.h3_to_geo(c), A.SEARCH_RES) != h3.h3_to_parent(c, A.SEARCH_RES)][0]
POSX = tuple(A.POS[i] for i in CELL_IDX) + (A.NET.position_from_geoid(RIM),)
if os.environ.get("VF_SHARED_LINK") == "1":
    # street-graph style positions: many cells lie on ONE link (same link id, different cell) -- on the straight-line network
    # every cell has a link id of its own, which hides any comparison made on link ids instead of cells
    from nrel.hive.model.entity_position import EntityPosition as _EP

    POSX = tuple(_EP("1-2", p.geoid) for p in POSX)
N_CELLS = len(POSX)
IDS = {0: ("v0", "v1", "v10"), 1: ("r0", "r1", "r2"), 2: ("s0", "s1", "s2"), 3: ("b0", "b1", "b2")}[EK]
PROTO = {0: A.V0, 1: A.R0, 2: A.S0, 3: A.B0}[EK]
COLL = ("vehicles", "requests", "stations", "bases")[EK]
LOCS = ("v_locations", "r_locations", "s_locations", "b_locations")[EK]
SEARCH = ("v_search", "r_search", "s_search", "b_search")[EK]
EMPTY = A.SIM0._replace(
    stations=immutables.Map(), bases=immutables.Map(), s_locations=immutables.Map(), s_search=immutables.Map(),
    b_locations=immutables.Map(), b_search=immutables.Map(),
)


GENERIC = os.environ.get("VF_GENERIC") == "1"
AT_KEY = ("vehicles", "requests", "station", "base")[EK]


def _lookup_ok(sim2):
    """the location lookup API (SimulationState.at_geoid, get_*_ids) finds every entity of the kind at its cell and nowhere else"""
    coll = getattr(sim2, COLL)
    ids = (sim2.get_vehicle_ids, sim2.get_request_ids, sim2.get_station_ids, sim2.get_base_ids)[EK]()
    if tuple(ids) != tuple(sorted(coll.keys())):
        return False
    for k in range(N_CELLS):
        g = POSX[k].geoid
        found = sim2.at_geoid(g)[AT_KEY]
        want = frozenset(eid for eid, e in coll.items() if e.geoid == g)
        if frozenset(found) != want:
            return False
    return True


def _cell(i):
    for k in range(N_CELLS):
        if i == k:
            return k
    return None


def _entity(eid, cell):
    return replace(PROTO, id=eid, position=POSX[cell])


def _pre(c0, c1, c2, p1, p2):
    ents = {IDS[0]: _entity(IDS[0], c0)}
    if p1:
        ents[IDS[1]] = _entity(IDS[1], c1)
    if p2:
        ents[IDS[2]] = _entity(IDS[2], c2)
    m = immutables.Map(ents)
    locs = immutables.Map(I._index_of(m, None))
    search = immutables.Map(I._index_of(m, A.SEARCH_RES))
    return EMPTY._replace(**{COLL: m, LOCS: locs, SEARCH: search})


def _apply(sim, target_id, ncell, touch):
    return _apply_op(sim, OP, target_id, ncell, touch)


def _apply_op(sim, OP, target_id, ncell, touch):
    """returns (result, kind) with result a returns.Result"""
    ent = replace(_entity(target_id, ncell))
    if touch:
        if EK == 0:
            ent = replace(ent, balance=ent.balance + 1.0)
        elif EK == 1:
            ent = replace(ent, value=ent.value + 1)
        elif EK == 2:
            ent = replace(ent, balance=ent.balance + 1.0)
        else:
            ent = replace(ent, total_stalls=ent.total_stalls + 1, available_stalls=ent.available_stalls + 1)
    if GENERIC and OP == 0:
        return sso.add_entities_safe(sim, (ent,)), ent  # the class-name dispatch of add_entity_safe, through the multi-entity fold
    if GENERIC and OP == 1:
        return sso.modify_entities_safe(sim, (ent,)), ent
    if OP == 0:
        return (sso.add_vehicle_safe, sso.add_request_safe, sso.add_station_safe, sso.add_base_safe)[EK](sim, ent), ent
    if OP == 1:
        return (sso.modify_vehicle_safe, sso.modify_request_safe, sso.modify_station_safe, sso.modify_base_safe)[EK](sim, ent), ent
    if OP == 2:
        return (sso.remove_vehicle_safe, sso.remove_request_safe, sso.remove_station_safe, sso.remove_base_safe)[EK](sim, target_id), ent
    return sso.pop_vehicle_safe(sim, target_id), ent


def h_idx(c0: int, c1: int, p1: bool, tgt: int, nc: int, touch: bool) -> bool:
    """
    pre: 0 <= c0 <= 4 and 0 <= c1 <= 4 and 0 <= tgt <= 2 and 0 <= nc <= 4
    post: _
    """
    if OP == 3 and EK != 0:
        return True
    a, b, n = _cell(c0), _cell(c1), _cell(nc)
    if a is None or b is None or n is None:
        return True
    has1 = True if p1 else False
    sim = _pre(a, b, 0, has1, False)
    target_id = IDS[0] if tgt == 0 else (IDS[1] if tgt == 1 else IDS[2])
    present = target_id in getattr(sim, COLL)
    tch = True if touch else False
    res, ent = _apply(sim, target_id, n, tch)
    failed = isinstance(res, Failure)
    note(EK_NAME[EK], OP_NAME[OP], "present" if present else "absent", "failed" if failed else "ok")
    if failed:
        return True  # a refused operation returns no state: the caller keeps the old one
    sim2 = res.unwrap()
    popped = None
    if OP == 3:
        sim2, popped = sim2
    if not I.idx_ok(sim2):
        return False
    with boot.no_tracing():  # (ids and cells are concrete on every path: plain evaluation of the real lookup functions)
        looked_up = _lookup_ok(sim2)
    if not looked_up:
        return False
    coll2 = getattr(sim2, COLL)
    old = getattr(sim, COLL).get(target_id)
    if OP == 0:
        # a successful add makes the entity present, exactly as given, and keeps every other entity
        if coll2.get(target_id) != ent:
            return False
    elif OP == 1:
        if not present or coll2.get(target_id) != ent:
            return False
        if EK in (2, 3) and old.geoid != ent.geoid:
            return False  # stations and bases never change location
    else:
        if not present or target_id in coll2:
            return False
        if OP == 3 and popped != old:
            return False
    for eid, e in getattr(sim, COLL).items():
        if eid != target_id and coll2.get(eid) is not e:
            return False
    return True


def h_idx_reach(c0: int, c1: int, p1: bool, tgt: int, nc: int, touch: bool) -> bool:
    """
    reachability twin (must be refuted): some operation on a present entity succeeds
    pre: 0 <= c0 <= 4 and 0 <= c1 <= 4 and 0 <= tgt <= 2 and 0 <= nc <= 4
    post: _
    """
    if OP == 3 and EK != 0:
        return False
    a, b, n = _cell(c0), _cell(c1), _cell(nc)
    if a is None or b is None or n is None:
        return True
    sim = _pre(a, b, 0, True if p1 else False, False)
    target_id = IDS[0] if tgt == 0 else (IDS[1] if tgt == 1 else IDS[2])
    res, ent = _apply(sim, target_id, n, True if touch else False)
    return isinstance(res, Failure)


# ---- C16: two consecutive operations; the state between them is kept by the caller and must not change afterwards
def h_idx2(c1: int, t1: int, n1: int, t2: int, n2: int, o2: int) -> bool:
    """
    CASE = entity kind * 4 + first operation (0 add, 1 modify, 2 remove); the second operation (o2), its target and cell are
    symbolic.  The caller keeps the initial state and the state between the two operations (a saved check-point): both read
    the same after the second operation, and repeating the second operation from the check-point gives an equal result.
    Pre-state: two entities, the first at A, the second at A / E (same search cell) / B; cells of the operations from the same three.
    pre: 0 <= c1 <= 2 and 0 <= t1 <= 2 and 0 <= n1 <= 2 and 0 <= t2 <= 2 and 0 <= n2 <= 2 and 0 <= o2 <= 2
    post: _
    """
    if OP > 2:
        return True
    a, b, m1, m2 = 0, _cell(c1), _cell(n1), _cell(n2)
    op2 = None
    for k in range(3):
        if o2 == k:
            op2 = k
    if a is None or b is None or m1 is None or m2 is None or op2 is None:
        return True
    sim0 = _pre(a, b, 0, True, False)
    snap0 = I.snap_sim(sim0)
    id1 = IDS[0] if t1 == 0 else (IDS[1] if t1 == 1 else IDS[2])
    id2 = IDS[0] if t2 == 0 else (IDS[1] if t2 == 1 else IDS[2])
    res1, _ = _apply_op(sim0, OP, id1, m1, False)
    first_ok = not isinstance(res1, Failure)
    sim1 = res1.unwrap() if first_ok else sim0
    snap1 = I.snap_sim(sim1)
    res2, _ = _apply_op(sim1, op2, id2, m2, False)  # ---- real code, on the kept state
    res3, _ = _apply_op(sim1, op2, id2, m2, False)  # ---- and once more from the same check-point
    note("idx2", EK_NAME[EK], OP_NAME[OP], "ok" if first_ok else "failed", OP_NAME[op2], "failed" if isinstance(res2, Failure) else "ok")
    if not (I.deq(snap0, I.snap_sim(sim0)) and I.deq(snap1, I.snap_sim(sim1))):
        return False
    if isinstance(res2, Failure) != isinstance(res3, Failure):
        return False
    if not isinstance(res2, Failure):
        return I.deq(I.snap_sim(res2.unwrap()), I.snap_sim(res3.unwrap()))
    return True
