"""
T-instr: one real `apply_instructions(sim, env, (instruction,))` from an arbitrary INV pre-state.

CASE (concrete, from VF_CASE) = kind * N_INSTR + instruction index, so each condition explores
one (previous activity, instruction) pair with everything else symbolic:
  cell      where the vehicle is (6 arena cells; activities that pin a place need the right one)
  plug      plug of the previous activity (LEVEL_2 / DCFC / not-installed / gas pump)
  iplug     plug named by the instruction
  tot,g,q   LEVEL_2@s0: installed, ghosts charging, ghosts queueing   (unbounded ints)
  stalls,sg b0: total stalls, ghost-occupied stalls                   (unbounded ints)
  s1g       ghost on the single plug of s1 (the station behind base b0)
  r0d, r0p  request r0: dispatched-vehicle record (none/v0/v1/ghost), present or not
  ms        membership scenario: 0 all public, 1 vehicle f1 / targets f2 (deny), 2 vehicle f1 / targets f1+f2
  ice       combustion vehicle instead of electric

The oracle asserted is selected by VF_ORACLE (one of C02 C07 C09 C10 C16 C17).
"""
import os

from vf import boot
from vf.boot import note
from vf.h import arena as A
from vf.h import inv as I
from vf.h import stubs
from nrel.hive.state.simulation_state.update.step_simulation_ops import apply_instructions

CASE = int(os.environ.get("VF_CASE", "0"))
ORACLE = os.environ.get("VF_ORACLE", "C02")
KIND = CASE // A.N_INSTR
IK = CASE % A.N_INSTR

PLUG_KINDS = (3, 4, 7)
PLUG_INSTR = (2, 3, 4, 9, 10, 14, 16)
REQ_KINDS = (9, 12)
REQ_INSTR = (1, 15, 17)
PIN_PLUGS = os.environ.get("VF_PIN_PLUGS") == "1"  # quick tier of C10: plugs fixed to LEVEL_2 / electric
if PIN_PLUGS:
    PLUG_KINDS = ()
    PLUG_INSTR = ()
S1_RELEVANT = KIND == 6 or IK in (4, 9, 10)
ICE_RELEVANT = (KIND in PLUG_KINDS or IK in PLUG_INSTR or KIND == 6) and not PIN_PLUGS
INSTR_TARGET_CELL = {1: 2, 2: 0, 3: 0, 4: 1, 5: 1, 6: 1, 8: 3, 9: 1, 10: 1, 11: 4, 12: 4, 14: 4, 15: 2, 16: 5, 17: 2}


def _relevant_cells():
    """cells that matter for this (activity, instruction): both targets and one unrelated cell"""
    t = set()
    if KIND in A.KIND_TARGET_CELL:
        t.add(A.KIND_TARGET_CELL[KIND])
    if IK in INSTR_TARGET_CELL:
        t.add(INSTR_TARGET_CELL[IK])
    if IK == 16:
        t.add(0)  # the cell of the station behind base b2
    other = 3 if 3 not in t else (5 if 5 not in t else 2)
    t.add(other)
    return tuple(sorted(t))


REL_CELLS = _relevant_cells()


def _cell(i):
    for k in range(len(REL_CELLS)):
        if i == k:
            return REL_CELLS[k]
    return None


def _memberships(ms):
    """(vehicle, station s0, base b0, request r0) membership indexes for a scenario"""
    if ORACLE == "C10":
        # full grid: vehicle membership x target membership (all targets share it)
        for mv in range(5):
            for mt in range(5):
                if ms == mv * 5 + mt:
                    return mv, mt, mt, mt
        return None
    if ms == 0:
        return 0, 0, 0, 0
    if ms == 1:
        return 1, 2, 2, 2
    if ms == 2:
        return 1, 3, 3, 1
    return None


def _involved(pre_state, post_state, sim):
    """ids of entities a transition from pre_state to post_state may touch"""
    ids = {"v0"}
    for st in (pre_state, post_state):
        for attr in ("station_id", "base_id", "request_id"):
            x = getattr(st, attr, None)
            if x is not None:
                ids.add(x)
                if attr == "base_id":
                    b = sim.bases.get(x)
                    if b is not None and b.station_id is not None:
                        ids.add(b.station_id)
        for rid, _phase in getattr(st, "trip_plan", ()):
            ids.add(rid)
    return ids


def _plan_stamped(sim2, v_post):
    """an accepted pooling dispatch records the vehicle on every request of its plan (all of them were required to exist)"""
    st = v_post.vehicle_state
    if isinstance(st, A.DispatchPoolingTrip):
        for rid, _phase in st.trip_plan:
            r = sim2.requests.get(rid)
            if r is None or r.dispatched_vehicle != v_post.id:
                return False
    return True


def _changed(sim, sim2):
    out = set()
    for coll in ("vehicles", "stations", "bases", "requests"):
        a, b = getattr(sim, coll), getattr(sim2, coll)
        for k in set(a.keys()) | set(b.keys()):
            if k not in a or k not in b:
                out.add(k)
            elif a[k] is b[k]:
                continue
            elif not I.deq(I.snapshot(a[k]), I.snapshot(b[k])):
                out.add(k)
    return out


def _body(
    cell: int,
    plug: int,
    iplug: int,
    tot: int,
    g: int,
    q: int,
    stalls: int,
    sg: int,
    s1g: int,
    r0d: int,
    r0p: bool,
    ms: int,
    ice: bool,
) -> bool:
    stubs.install_random_shim()  # any randomness reachable from nrel.hive globals is a solver-chosen draw
    c = _cell(cell)
    p = A.plug_of(plug) if KIND in PLUG_KINDS else "LEVEL_2"
    ip = A.plug_of(iplug) if IK in PLUG_INSTR else "LEVEL_2"
    if KIND in REQ_KINDS or IK in REQ_INSTR:
        rd, rp = r0d, (True if r0p else False)
    else:
        rd, rp = 0, True
    mm = _memberships(ms)
    if c is None or p is None or ip is None or mm is None:
        return True
    mv, m_s, m_b, m_r = mm
    is_ice = (True if ice else False) if ICE_RELEVANT else False
    s1_ghost = s1g if S1_RELEVANT else 0
    spec = A.VSpec("v0", KIND, c, plug=p, memb=mv, ice=is_ice)
    # C10 grid: the other station s1 carries a membership different from s0's (the next one of the list), so that being
    # admitted at one station says nothing about the other
    w = A.build_world(
        (spec,), tot, g, q, stalls, sg, r0_disp=rd, r0_present=rp, s0_memb=m_s, b0_memb=m_b, r0_memb=m_r, s1_g=s1_ghost,
        s1_memb=(m_s + 1) % 5 if ORACLE == "C10" else 0,
        pool=(IK == 17),
    )
    if w is None:
        return True
    sim = w.sim
    v_pre = sim.vehicles["v0"]
    # the pre-state must itself satisfy INV (one-step induction)
    if not (I.req_ok(sim, w.vids) and I.mem_ok_vehicle(sim, v_pre) and I.loc_ok(sim, w.vids)):
        return True
    if rd == 1 and KIND not in (9, 12):
        return True
    instr = A.instruction(IK, ip)
    env, rec = A.env_with_recorder()
    snap0 = I.snap_sim(sim) if ORACLE in ("C16", "C09") else None

    sim2 = apply_instructions(sim, env, (instr,))  # ---- the real code under test

    v_post = sim2.vehicles["v0"]
    accepted = v_post.vehicle_state.instance_id != v_pre.vehicle_state.instance_id
    note(A.KIND_NAMES[KIND], A.INSTR_NAMES[IK], "accepted" if accepted else "rejected")

    if ORACLE == "C02":
        return I.counts_ok(sim2, w)
    if ORACLE == "C07":
        return I.loc_ok(sim2, w.vids)
    if ORACLE == "C08":
        return I.idx_ok(sim2)
    if ORACLE == "C10":
        return I.mem_ok_vehicle(sim2, v_post)
    if ORACLE == "C17":
        if accepted and isinstance(v_post.vehicle_state, A.DispatchTrip):
            # an accepted dispatch leaves the request recording a vehicle (else the dispatcher would send a second one)
            r = sim2.requests.get(v_post.vehicle_state.request_id)
            if r is None or r.dispatched_vehicle != "v0":
                return False
        if accepted and not _plan_stamped(sim2, v_post):
            return False
        return I.req_ok(sim2, w.vids)
    if ORACLE == "C03":
        # applying an instruction never resolves, creates or loses a request, and cannot divert a
        # vehicle that carries passengers with road still ahead
        if set(sim2.requests.keys()) != set(sim.requests.keys()):
            return False
        for r in rec.reports:
            if r.report_type.name in ("PICKUP_REQUEST_EVENT", "DROPOFF_REQUEST_EVENT", "CANCEL_REQUEST_EVENT", "ADD_REQUEST_EVENT"):
                return False
        st0 = v_pre.vehicle_state
        if isinstance(st0, A.ServicingTrip) and len(st0.route) > 0:
            if v_post.vehicle_state is not st0:
                return False
        if isinstance(st0, A.ServicingPoolingTrip) and len(st0.trip_plan) > 0 and IK not in (15, 17):
            if v_post.vehicle_state is not st0:
                return False
        return v_post.balance == v_pre.balance
    if ORACLE == "C05":
        # instructions move no energy and no money
        for coll in ("vehicles", "stations"):
            for k, a in getattr(sim, coll).items():
                b = getattr(sim2, coll)[k]
                if a is b:
                    continue
                if not (a.balance == b.balance):
                    return False
                if coll == "vehicles":
                    if not (I.deq(I.snapshot(a.energy), I.snapshot(b.energy)) and I.deq(I.snapshot(a.energy_gained), I.snapshot(b.energy_gained))
                            and I.deq(I.snapshot(a.energy_expended), I.snapshot(b.energy_expended))):
                        return False
                elif not I.deq(I.snapshot(a.energy_dispensed), I.snapshot(b.energy_dispensed)):
                    return False
        return True
    if ORACLE == "C16":
        ok = I.deq(snap0, I.snap_sim(sim))
        sim3 = apply_instructions(sim, env, (instr,))
        return ok and I.deq(I.snap_sim(sim2, True), I.snap_sim(sim3, True))
    if ORACLE == "C09":
        if not accepted:
            # rejected: nothing in the simulation changes
            return I.deq(snap0, I.snap_sim(sim2))
        # accepted: the vehicle is in the instructed activity, with its side effects
        k2 = A.kind_of_state(v_post.vehicle_state)
        if k2 not in A.INSTR_TARGET_KIND[IK]:
            return False
        if sim2.applied_instructions.get("v0") != instr:
            return False
        if not (I.counts_ok(sim2, w) and I.req_ok(sim2, w.vids)):
            return False
        if isinstance(v_post.vehicle_state, A.DispatchTrip):
            r = sim2.requests.get(v_post.vehicle_state.request_id)
            if r is None or r.dispatched_vehicle != "v0":
                return False
        if not _plan_stamped(sim2, v_post):
            return False
        # frame: nothing but the vehicle and its old / new targets changes
        return _changed(sim, sim2) <= _involved(v_pre.vehicle_state, v_post.vehicle_state, sim2)
    return False


def t_instr(
    cell: int, plug: int, iplug: int, tot: int, g: int, q: int, stalls: int, sg: int, s1g: int,
    r0d: int, r0p: bool, ms: int, ice: bool,
) -> bool:
    """
    pre: 0 <= cell <= 5 and 0 <= plug <= 3 and 0 <= iplug <= 3 and 0 <= ms <= 2
    pre: 0 <= r0d <= 3 and 0 <= s1g <= 1
    post: _
    """
    return _body(cell, plug, iplug, tot, g, q, stalls, sg, s1g, r0d, r0p, ms, ice)


def t_instr_memb(
    cell: int, plug: int, iplug: int, tot: int, g: int, q: int, stalls: int, sg: int, s1g: int,
    r0d: int, r0p: bool, ms: int, ice: bool,
) -> bool:
    """
    membership grid (VF_ORACLE=C10): ms = 5 * vehicle membership + target membership, each in
    {public, f1, f2, f1+f2, another vehicle's private home-base id}
    pre: 0 <= cell <= 5 and 0 <= plug <= 3 and 0 <= iplug <= 3 and 0 <= ms <= 24
    pre: 0 <= r0d <= 3 and 0 <= s1g <= 1
    post: _
    """
    return _body(cell, plug, iplug, tot, g, q, stalls, sg, s1g, r0d, r0p, ms, ice)


def t_instr_reach(
    cell: int,
    plug: int,
    iplug: int,
    tot: int,
    g: int,
    q: int,
    stalls: int,
    sg: int,
    s1g: int,
    r0d: int,
    r0p: bool,
    ms: int,
    ice: bool,
) -> bool:
    """
    reachability twin: must be REFUTED (some path reaches the call with a valid pre-state)
    pre: 0 <= cell <= 5 and 0 <= plug <= 3 and 0 <= iplug <= 3 and 0 <= ms <= 2
    pre: 0 <= r0d <= 3 and 0 <= s1g <= 1
    post: _
    """
    c = _cell(cell)
    p = A.plug_of(plug) if KIND in PLUG_KINDS else "LEVEL_2"
    mm = _memberships(ms)
    if c is None or p is None or mm is None:
        return True
    spec = A.VSpec("v0", KIND, c, plug=p, memb=mm[0], ice=(True if ice else False) if ICE_RELEVANT else False)
    w = A.build_world((spec,), tot, g, q, stalls, sg, s0_memb=mm[1], b0_memb=mm[2], r0_memb=mm[3], s1_g=s1g if S1_RELEVANT else 0)
    if w is None:
        return True
    return False
