"""
C01 harnesses: results must not depend on the iteration order of hash-based containers.

Every unordered container that feeds an order-sensitive fold is replaced by an OrderedView whose iteration
order is a solver-chosen permutation; the real function is run under two permutations on the same state and the
results are compared (instance ids ignored).

 h_rank     assignment_ops.nearest_shortest_queue_ranking over Station.on_shift_access_chargers (3 plug types,
            symbolic installed counts and queue lengths: ties)
 h_nearest  H3Ops.nearest_entity over the h3.k_ring cell set and over the id set registered at a search cell (three stations
            in different search cells of ring 1 plus a fourth sharing a search cell with the first, symbolic distance
            values and validity: ties)
 h_step     end to end: real StepSimulation.update with the built-in ChargingFleetManager + Dispatcher, fleets {f1, f2}
            in both orders, a vehicle that is in both fleets, requests of either fleet, a low-energy vehicle searching a
            station whose on-shift plug set is permuted.   CASE = cell index of v0 (0..3) * 2 + cell of v1 (A / D).
"""
import os
from dataclasses import replace

import h3 as real_h3
import immutables

from vf import boot
from vf.boot import note
from vf.h import arena as A
from vf.h import inv as I
from vf.h import stubs
from vf.h.stubs import OrderedView, perm_of

from nrel.hive.dispatcher.instruction_generator import assignment_ops
from nrel.hive.dispatcher.instruction_generator.dispatcher import Dispatcher
from nrel.hive.dispatcher.instruction_generator.charging_fleet_manager import ChargingFleetManager
from nrel.hive.util import h3_ops
from nrel.hive.util.h3_ops import H3Ops
from nrel.hive.state.simulation_state import simulation_state_ops as sso
from nrel.hive.state.simulation_state.update.step_simulation import StepSimulation

stubs.install_np_shim()
stubs.install_h3_shim()
stubs.install_time_diff_shim()

CASE = int(os.environ.get("VF_CASE", "0"))
PLUGS3 = ("DCFC", "LEVEL_1", "LEVEL_2")
S3 = A.ml.mock_station_from_geoid("s3", A.CELL_A, chargers={"LEVEL_1": 1, "LEVEL_2": 1, "DCFC": 1}, env=A.ENV0)
VB = A.ml.mock_vehicle_from_geoid("v0", A.CELL_B)


def _station3(t0, t1, t2, q0, q1, q2, perm):
    st = S3.state
    tq = ((t0, q0), (t1, q1), (t2, q2))
    for i, p in enumerate(PLUGS3):
        st = st.set(p, st[p]._replace(total_chargers=tq[i][0], available_chargers=tq[i][0], enqueued_vehicles=tq[i][1]))
    return replace(S3, state=st, on_shift_access_chargers=OrderedView(PLUGS3, perm))


def h_rank(p: int, q: int, t0: int, t1: int, t2: int, q0: int, q1: int, q2: int) -> bool:
    """
    pre: 0 <= p <= 5 and 0 <= q <= 5 and p < q
    pre: 0 <= t0 <= 3 and 0 <= t1 <= 3 and 0 <= t2 <= 3 and 0 <= q0 <= 4 and 0 <= q1 <= 4 and 0 <= q2 <= 4
    post: _
    """
    pa, pb = perm_of(p, 3), perm_of(q, 3)
    if pa is None or pb is None:
        return True
    ra = assignment_ops.nearest_shortest_queue_ranking(VB, _station3(t0, t1, t2, q0, q1, q2, pa), A.ENV0)  # ---- real code
    rb = assignment_ops.nearest_shortest_queue_ranking(VB, _station3(t0, t1, t2, q0, q1, q2, pb), A.ENV0)
    note("rank", ra[0])
    return ra[0] == rb[0] and ra[1] == rb[1]


def h_rank_time(p: int, q: int, ki: int, ei: int) -> bool:
    """
    real assignment_ops.shortest_time_to_charge_ranking (the non-default charging search) under two iteration orders of the
    station's plug set AND of any immutables.Map the function itself builds (stubs.install_perm_maps): the chosen plug and the
    estimate agree.  Ties are forced the two ways they arise in a run: the estimate is capped by the time left in the
    simulation (ki steps), or the vehicle is already at the target.
    pre: 0 <= p <= 5 and 0 <= q <= 5 and p < q and 0 <= ki <= 3 and 0 <= ei <= 2
    post: _
    """
    pa, pb = perm_of(p, 3), perm_of(q, 3)
    k = e = None
    for j in range(4):
        if ki == j:
            k = j
    for j, lvl in enumerate((10.0, 49.0, 50.0)):
        if ei == j:
            e = lvl
    if pa is None or pb is None or k is None or e is None:
        return True
    stubs.install_perm_maps(assignment_ops)  # also in concrete replay: the order is the thing being varied
    cfg = A.ENV0.config
    t0 = int(A.SIM0.sim_time)
    env = A.ENV0._replace(config=cfg._replace(sim=cfg.sim._replace(end_time=t0 + k * 60)))
    sim = A.SIM0._replace(sim_timestep_duration_seconds=60)
    veh = replace(VB, energy=immutables.Map({A.E: e}))
    out = []
    for perm in (pa, pb):
        stubs.PermMap.PERM = perm
        st = _station3(1, 1, 1, 0, 0, 0, perm)
        out.append(assignment_ops.shortest_time_to_charge_ranking(sim, env, veh, st, 1.0))  # ---- real code
    stubs.PermMap.PERM = (0, 1, 2)
    ra, rb = out
    note("rank-time", k, e, None if ra is None else ra[0])
    if ra is None or rb is None:
        return ra is None and rb is None
    return ra[0] == rb[0] and ra[1] == rb[1]


# ---- nearest_entity: two stations in two different search cells of ring 1 around the vehicle's search cell
_CENTER = real_h3.h3_to_parent(A.CELL_A, A.SEARCH_RES)
_RING1 = sorted(real_h3.k_ring(_CENTER, 1) - {_CENTER})
_CA = real_h3.h3_to_center_child(_RING1[0], 15)
_CB = real_h3.h3_to_center_child(_RING1[3], 15)
_CC = real_h3.h3_to_center_child(_RING1[5], 15)
_SA = replace(A.S1, id="sa", position=A.NET.position_from_geoid(_CA))
_SB = replace(A.S1, id="sb", position=A.NET.position_from_geoid(_CB))
_SC = replace(A.S1, id="sc", position=A.NET.position_from_geoid(_CC))
# ... and a fourth station in the SAME search cell as sa (the id set registered at one search cell has two members)
_CD = [c for c in sorted(real_h3.k_ring(_CA, 2) - {_CA}) if real_h3.h3_to_parent(c, A.SEARCH_RES) == _RING1[0]][0]
_SD = replace(A.S1, id="sd", position=A.NET.position_from_geoid(_CD))
_SIM_N = A.SIM0._replace(stations=immutables.Map(), s_locations=immutables.Map(), s_search=immutables.Map())
for _s in (_SA, _SB, _SC, _SD):
    _SIM_N = sso.add_station_safe(_SIM_N, _s).unwrap()
assert _SIM_N.s_search[_RING1[0]] == frozenset(("sa", "sd"))


class _RingShim:
    """h3 stand-in for h3_ops: k_ring returns the real cells in a solver-chosen order of the entity-bearing cells"""

    def __init__(self):
        self.perm = (0, 1, 2)

    def __getattr__(self, name):
        return getattr(stubs.H3_SHIM, name)

    def k_ring(self, cell, k):
        ring = sorted(real_h3.k_ring(cell, k))
        bearing = [c for c in (_RING1[0], _RING1[3], _RING1[5]) if c in ring]
        rest = [c for c in ring if c not in bearing]
        if len(bearing) == 3:
            bearing = [bearing[i] for i in self.perm]
        return OrderedView(rest + bearing, tuple(range(len(ring))))


_RING = _RingShim()


def _nearest(perm, da, db, dc, va, vb, dd=3):
    _RING.perm = perm
    dist = {"sa": da, "sb": db, "sc": dc, "sd": dd}
    valid = {"sa": va, "sb": vb, "sc": True, "sd": True}
    # the id set registered at sa's search cell iterates in a solver-chosen order as well
    pair = OrderedView(("sa", "sd"), (0, 1) if perm[0] < perm[1] else (1, 0))
    return H3Ops.nearest_entity(
        geoid=A.CELL_A,
        entities=_SIM_N.get_stations(),
        entity_search=_SIM_N.s_search.set(_RING1[0], pair),
        sim_h3_search_resolution=A.SEARCH_RES,
        distance_function=lambda e: dist[e.id],
        is_valid=lambda e: valid[e.id],
        max_search_distance_km=1.0,
    )


def h_nearest(p: int, q: int, da: int, db: int, dc: int, va: bool, vb: bool, dd: int) -> bool:
    """
    pre: 0 <= p <= 5 and 0 <= q <= 5 and p < q
    pre: 0 <= da <= 3 and 0 <= db <= 3 and 0 <= dc <= 3 and 0 <= dd <= 3
    post: _
    """
    pa, pb = perm_of(p, 3), perm_of(q, 3)
    if pa is None or pb is None:
        return True
    saved = h3_ops.h3
    h3_ops.h3 = _RING  # also in concrete replay: the ring order is the thing being varied
    try:
        ra = _nearest(pa, da, db, dc, True if va else False, True if vb else False, dd)  # ---- real code
        rb = _nearest(pb, da, db, dc, True if va else False, True if vb else False, dd)
    finally:
        h3_ops.h3 = saved
    note("nearest", ra.id if ra is not None else None)
    return (ra.id if ra is not None else None) == (rb.id if rb is not None else None)


# ---- end to end
V0_CELLS = (0, 1, 3, 4)


def _world(perm_f, perm_s, e1, rm0, rm1, c1):
    env, rec = A.env_with_recorder(A.ENV0._replace(fleet_ids=OrderedView(("f1", "f2"), perm_f)))
    sim = A.SIM0
    s0 = sim.stations["s0"]
    s0 = replace(s0, on_shift_access_chargers=OrderedView(("DCFC", "LEVEL_2"), perm_s))
    sim = sim._replace(stations=sim.stations.set("s0", s0))
    both = A.MEMBERSHIPS[3]
    v0 = replace(A.V0, position=A.POS[V0_CELLS[(CASE // 2) % 4]], membership=both, energy=immutables.Map({A.E: 40.0}))
    v1 = replace(A.V1, position=A.POS[c1], membership=A.MEMBERSHIPS[1], energy=immutables.Map({A.E: e1}))
    for v in (v0, v1):
        sim = sso.add_vehicle_safe(sim, v).unwrap()
    r0 = replace(A.R0, membership=A.MEMBERSHIPS[1 if rm0 == 0 else 2])
    r1 = replace(A.R1, membership=A.MEMBERSHIPS[1 if rm1 == 0 else 2], position=A.POS[3])
    for r in (r0, r1):
        sim = sso.add_request_safe(sim, r).unwrap()
    return sim, env, rec


E1_LEVELS = (2.0, 8.0, 40.0)  # v1: too low to be dispatched (must charge) / below the soft threshold / plenty


def h_step(pf: int, ps: int, ei: int, rm0: int, rm1: int) -> bool:
    """
    pre: 0 <= pf <= 1 and 0 <= ps <= 1 and 0 <= rm0 <= 1 and 0 <= rm1 <= 1 and 0 <= ei <= 2
    pre: pf + ps >= 1
    post: _
    """
    e1 = None
    for k in range(3):
        if ei == k:
            e1 = E1_LEVELS[k]
    if e1 is None:
        return True
    cell1 = 0 if CASE % 2 == 0 else 3
    outs = []
    for (a, b) in (((0, 1), (0, 1)), (perm_of(pf, 2), perm_of(ps, 2))):
        if a is None or b is None:
            return True
        sim, env, rec = _world(a, b, e1, rm0, rm1, cell1)
        step = StepSimulation.from_tuple((ChargingFleetManager(env.config.dispatcher), Dispatcher(env.config.dispatcher)))
        sim2, _ = step.update(sim, env)  # ---- real code
        outs.append((sim2, rec))
    s_a, s_b = outs[0][0], outs[1][0]
    note("step", A.KIND_NAMES[A.kind_of_state(s_a.vehicles["v0"].vehicle_state)], A.KIND_NAMES[A.kind_of_state(s_a.vehicles["v1"].vehicle_state)])
    for f in ("vehicles", "requests", "bases", "applied_instructions"):
        if not I.deq(I.snapshot(getattr(s_a, f), True), I.snapshot(getattr(s_b, f), True)):
            return False
    # stations: compare everything but the (permuted) container itself
    for sid in ("s0", "s1"):
        a, b = s_a.stations[sid], s_b.stations[sid]
        if not (I.deq(I.snapshot(a.state), I.snapshot(b.state)) and a.balance == b.balance):
            return False
    def _evs(rec):
        # (no repr()/str() under tracing: compare report contents structurally, session ids ignored)
        rs = sorted(rec.reports, key=lambda r: (r.report_type.name, r.report.get("vehicle_id") or r.report.get("request_id") or r.report.get("station_id") or ""))
        return tuple((r.report_type.name, I.snapshot({k: v for k, v in r.report.items() if k != "session_id"}, True)) for r in rs)

    return I.deq(_evs(outs[0][1]), _evs(outs[1][1]))


# ------------------------------------------------------------------------------------- human driver looking for work
from nrel.hive.state.driver_state.driver_instruction_ops import human_look_for_requests as _look

_LOOK_CELLS = (2, 3, 5)  # C, D, F: three different search cells


def h_look(p: int, q: int, n0: int, n1: int, n2: int) -> bool:
    """
    driver_instruction_ops.human_look_for_requests picks the densest request search cell out of sim.r_search (a Map keyed by
    cell id: hash-ordered).  Three search cells hold n0 / n1 / n2 waiting requests (ties); r_search iterates in a solver-chosen
    order; the reposition target must not depend on it.
    pre: 0 <= p <= 5 and 0 <= q <= 5 and p < q
    pre: 1 <= n0 <= 2 and 1 <= n1 <= 2 and 1 <= n2 <= 2
    post: _
    """
    pa, pb = perm_of(p, 3), perm_of(q, 3)
    if pa is None or pb is None:
        return True
    sim = sso.add_vehicle_safe(A.SIM0, replace(A.V0, position=A.POS[0])).unwrap()
    counts = (1 if n0 == 1 else 2, 1 if n1 == 1 else 2, 1 if n2 == 1 else 2)
    for j, c in enumerate(_LOOK_CELLS):
        for k in range(counts[j]):
            r = replace(A.R0, id=f"q{j}{k}", position=A.POS[c])
            sim = sso.add_request_safe(sim, r).unwrap()
    keys = tuple(real_h3.h3_to_parent(A.CELLS[c], A.SEARCH_RES) for c in _LOOK_CELLS)
    out = []
    for perm in (pa, pb):
        view = stubs.MapOrderView(sim.r_search, tuple(keys[i] for i in perm))
        ins = _look(sim.vehicles["v0"], sim._replace(r_search=view))  # ---- real code
        out.append(None if ins is None else ins.destination)
    note("look", counts[0], counts[1], counts[2])
    return out[0] is not None and out[0] == out[1]
