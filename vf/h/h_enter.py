"""
C10, direct state entry (the API a user-written controller or state machine extension uses when no Instruction class
wraps the transition):

 h_enter_pool   real entity_state_ops.transition_previous_to_next(Idle -> DispatchPoolingTrip) with a plan over the two
                waiting requests r0 and r1; symbolic memberships of the vehicle and of both requests (5 x 5 x 5 grid:
                public, f1, f2, f1+f2, somebody's private id), vehicle at one of the arena cells.  If the transition is
                accepted, every request of the plan admits the vehicle, and each of them records it; if it is refused, the
                state is unchanged.
"""
import os
from dataclasses import replace

from vf import boot
from vf.boot import note
from vf.h import arena as A
from vf.h import inv as I
from vf.h import stubs

from nrel.hive.state.entity_state import entity_state_ops
from nrel.hive.state.simulation_state import simulation_state_ops as sso
from nrel.hive.state.vehicle_state.dispatch_pooling_trip import DispatchPoolingTrip
from nrel.hive.model.vehicle.trip_phase import TripPhase

stubs.install_np_shim()
stubs.install_h3_shim()
stubs.install_time_diff_shim()

CASE = int(os.environ.get("VF_CASE", "0"))
ORDER = CASE % 2  # which request the plan visits first


def h_enter_pool(mv: int, m0: int, m1: int, cell: int) -> bool:
    """
    pre: 0 <= mv <= 4 and 0 <= m0 <= 4 and 0 <= m1 <= 4 and 0 <= cell <= 3
    post: _
    """
    a, b, c, pos = A.memb_of(mv), A.memb_of(m0), A.memb_of(m1), A.cell_of(cell)
    if a is None or b is None or c is None or pos is None:
        return True
    v0 = replace(A.V0, position=A.POS[pos], membership=A.MEMBERSHIPS[a])
    sim = sso.add_vehicle_safe(A.SIM0, v0).unwrap()
    r0 = replace(A.R0, membership=A.MEMBERSHIPS[b], allows_pooling=True)
    r1 = replace(A.R1, membership=A.MEMBERSHIPS[c], allows_pooling=True)
    sim = sso.add_request_safe(sso.add_request_safe(sim, r0).unwrap(), r1).unwrap()
    first, second = ("r0", "r1") if ORDER == 0 else ("r1", "r0")
    plan = ((first, TripPhase.PICKUP), (second, TripPhase.PICKUP), (second, TripPhase.DROPOFF), (first, TripPhase.DROPOFF))
    route = sim.road_network.route(v0.position, sim.requests[first].position)
    env, rec = A.env_with_recorder()
    snap0 = I.snap_sim(sim)

    err, sim2 = entity_state_ops.transition_previous_to_next(sim, env, v0.vehicle_state, DispatchPoolingTrip.build("v0", plan, route))  # ---- real code

    ok0 = r0.membership.grant_access_to_membership(v0.membership)
    ok1 = r1.membership.grant_access_to_membership(v0.membership)
    note("enter-pool", A.MEMB_NAME[a], A.MEMB_NAME[b], A.MEMB_NAME[c], "entered" if sim2 is not None else "refused")
    if sim2 is None:
        return I.deq(snap0, I.snap_sim(sim))
    v2 = sim2.vehicles["v0"]
    if not isinstance(v2.vehicle_state, DispatchPoolingTrip):
        return False
    if not (ok0 and ok1):
        return False  # entered although a request of the plan does not admit the vehicle
    return I.mem_ok_vehicle(sim2, v2) and sim2.requests["r0"].dispatched_vehicle == "v0" and sim2.requests["r1"].dispatched_vehicle == "v0"
