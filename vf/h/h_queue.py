"""
H18 / T-all: real perform_vehicle_state_updates with three modelled vehicles contending for LEVEL_2 @ s0.

Each vehicle's role is symbolic:
   0 charging, not full     1 charging, full (leaves this step)     2 queueing with symbolic enqueue time
   3 idle at the station    4 arriving (DispatchStation with exhausted route)
   5 queueing with symbolic enqueue time, battery within the "full" tolerance but below 100 %
   6 queueing with symbolic enqueue time, battery drained to exactly 0 kWh (idling in the queue clamps at zero)
   7 queueing with symbolic enqueue time, vehicle of fleet f1 (the station is public)
   8 (v1 only) queueing for the OTHER plug type (DCFC @ s0) with symbolic enqueue time: a second queue whose member's id
     lies between the ids of the two LEVEL_2 candidates
plus symbolic installed plugs, ghost chargers and ghost queue members (unmodelled vehicles).
Vehicle ids are "v0", "v1", "v10" (lexicographic trap for the id tie-break).

VF_ORACLE=C18: FIFO -- no modelled vehicle leaves the queue to charge while a modelled vehicle that joined
               strictly earlier (ties: smaller id) is still queueing.
VF_ORACLE=C02: the counter invariant after the whole pass (several vehicles on one plug type).
"""
import os
from dataclasses import replace

import immutables

from vf import boot
from vf.boot import note
from vf.h import arena as A
from vf.h import inv as I
from vf.h import stubs
from nrel.hive.state.simulation_state.update.step_simulation_ops import perform_vehicle_state_updates

stubs.install_np_shim()
stubs.install_time_diff_shim()

ORACLE = os.environ.get("VF_ORACLE", "C18")
VIDS = ("v0", "v1", "v10")


QUEUE_ROLES = (2, 5, 6, 7)
N_ROLES = 8
# roles the two other vehicles (v1, v10) range over; the quick tier leaves out the roles that neither free nor claim a plug
ROLESET = tuple(int(x) for x in os.environ.get("VF_ROLESET", "0,1,2,3,4,5,6,7").split(","))


def _role(i, extra=()):
    rs = ROLESET + tuple(extra)
    for k in range(len(rs)):
        if i == k:
            return rs[k]
    return None


def _spec(vid, role, enq):
    if role == 0:
        return A.VSpec(vid, 3, 0, plug="LEVEL_2", energy=10.0)
    if role == 1:
        return A.VSpec(vid, 3, 0, plug="LEVEL_2", energy=50.0)
    if role == 2:
        return A.VSpec(vid, 4, 0, plug="LEVEL_2", energy=10.0, enq=stubs.mk_time(enq))
    if role == 5:
        return A.VSpec(vid, 4, 0, plug="LEVEL_2", energy=49.95, enq=stubs.mk_time(enq))
    if role == 6:
        return A.VSpec(vid, 4, 0, plug="LEVEL_2", energy=0.0, enq=stubs.mk_time(enq))
    if role == 7:
        return A.VSpec(vid, 4, 0, plug="LEVEL_2", memb=1, energy=10.0, enq=stubs.mk_time(enq))
    if role == 8:
        return A.VSpec(vid, 4, 0, plug="DCFC", energy=10.0, enq=stubs.mk_time(enq))
    if role == 3:
        return A.VSpec(vid, 0, 0, energy=10.0)
    return A.VSpec(vid, 7, 0, plug="LEVEL_2", energy=10.0)


CASE = int(os.environ.get("VF_CASE", "0"))


def h_fifo(r1: int, r2: int, t0: int, t1: int, t2: int, tot: int, g: int, q: int, perm: int) -> bool:
    """
    CASE = role of v0 (0..7).  `perm` is the order in which SimulationState.vehicles yields its values (a hash-order
    stand-in: the result must respect (enqueue time, id) whatever it is).
    pre: 0 <= r1 <= 8 and 0 <= r2 <= 7 and 0 <= perm <= 1
    pre: 0 <= t0 <= 100000 and 0 <= t1 <= 100000 and 0 <= t2 <= 100000
    post: _
    """
    roles = (CASE % N_ROLES, _role(r1, (8,)), _role(r2))
    order = None
    for k, o in enumerate(((0, 1, 2), (2, 1, 0))):  # sorted, reversed
        if perm == k:
            order = o
    if order is None:
        return True
    if None in roles:
        return True
    enq = (t0, t1, t2)
    specs = tuple(_spec(VIDS[i], roles[i], enq[i]) for i in range(3))
    w = A.build_world(specs, tot, g, q, 3, 0, sim_time=stubs.mk_time(200000), dt=60)
    if w is None:
        return True
    sim = w.sim
    env, rec = A.env_with_recorder()
    sim = sim._replace(vehicles=stubs.MapOrderView(sim.vehicles, tuple(VIDS[i] for i in order)))

    sim2 = perform_vehicle_state_updates(sim, env)  # ---- real code

    k2 = tuple(A.kind_of_state(sim2.vehicles[v].vehicle_state) for v in VIDS)
    note("roles", roles[0], roles[1], roles[2], "after", k2[0], k2[1], k2[2])
    if ORACLE == "C01":
        # the same pass with the vehicles yielded in sorted order gives the same result
        env_b, _ = A.env_with_recorder()
        sim_b = perform_vehicle_state_updates(w.sim._replace(vehicles=stubs.MapOrderView(w.sim.vehicles, VIDS)), env_b)
        return I.deq(I.snap_sim(sim2, True), I.snap_sim(sim_b, True))
    if ORACLE == "C02":
        return I.counts_ok(sim2, w)
    ok = True
    for i in range(3):
        for j in range(3):
            if i == j or roles[i] not in QUEUE_ROLES or roles[j] not in QUEUE_ROLES:
                continue
            # j left the queue and charges, i is still queueing
            if k2[j] == 3 and k2[i] == 4:
                earlier = (enq[i] < enq[j]) or (enq[i] == enq[j] and VIDS[i] < VIDS[j])
                if earlier:
                    ok = False
    return ok and I.counts_ok(sim2, w)


def h_fifo_reach(r1: int, r2: int, t0: int, t1: int, t2: int, tot: int, g: int, q: int, perm: int) -> bool:
    """
    reachability twin (must be refuted; run with CASE 1): two vehicles queueing, exactly one of them gets the plug
    pre: 0 <= r1 <= 7 and 0 <= r2 <= 7 and 0 <= perm <= 1
    pre: 0 <= t0 <= 100000 and 0 <= t1 <= 100000 and 0 <= t2 <= 100000
    post: _
    """
    if not (r1 == 2 and r2 == 2):
        return True
    specs = tuple(_spec(VIDS[i], (1, 2, 2)[i], (t0, t1, t2)[i]) for i in range(3))
    w = A.build_world(specs, tot, g, q, 3, 0, sim_time=stubs.mk_time(200000), dt=60)
    if w is None:
        return True
    env, rec = A.env_with_recorder()
    sim2 = perform_vehicle_state_updates(w.sim, env)
    k2 = tuple(A.kind_of_state(sim2.vehicles[v].vehicle_state) for v in VIDS)
    return not (k2[1] == 3 and k2[2] == 4)
