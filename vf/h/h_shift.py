"""
C20 harnesses.

 h_range  real time_helpers.time_in_range on seconds-of-day: start inclusive, end exclusive, wraps past midnight
 h_sched  the real schedule closure built by read_time_range_row (its parsed start/end replaced by symbolic
          seconds-of-day), evaluated at a symbolic epoch clock
 h_drv    real perform_driver_state_updates with two human drivers (symbolic shifts, symbolic current availability)
          and one autonomous driver: afterwards available <=> in shift at sim_time, exactly one on/off event per flip,
          nothing else changes
"""
import os
import types
from dataclasses import replace
from datetime import time as dtime

import immutables

from vf import boot
from vf.boot import note
from vf.h import arena as A
from vf.h import inv as I
from vf.h import stubs
from vf.h.stubs import mk_time, SymTod

from nrel.hive.util.time_helpers import time_in_range
from nrel.hive.model.vehicle.schedules import time_range_schedule as trs
from nrel.hive.state.simulation_state import simulation_state_ops as sso
from nrel.hive.state.simulation_state.update.step_simulation_ops import perform_driver_state_updates
from nrel.hive.state.driver_state.human_driver_state.human_driver_state import HumanAvailable, HumanUnavailable
from nrel.hive.state.driver_state.human_driver_state.human_driver_attributes import HumanDriverAttributes

DAY = 86400
CASE = int(os.environ.get("VF_CASE", "0"))


class Tod(SymTod):
    """seconds-of-day comparable with itself (stand-in for datetime.time with a symbolic value)"""


class _DT:
    """what datetime.utcfromtimestamp(t) is used for here: .time() -> time of day of epoch second t (t >= 0)"""

    def __init__(self, t):
        self.t = t

    def time(self):
        return Tod(int(self.t) % DAY) if not isinstance(self.t, stubs.SymTime) else Tod(self.t.t % DAY)


class _DatetimeShim:
    @staticmethod
    def utcfromtimestamp(t):
        return _DT(t)

    @staticmethod
    def strptime(s, f):
        from datetime import datetime

        return datetime.strptime(s, f)


def _in_shift(s, e, x):
    """specification: x in [s, e) on the 24h circle; s == e is the empty shift"""
    return (x - s) % DAY < (e - s) % DAY


def _closure(s, e):
    """the real _schedule_fn closure of read_time_range_row with symbolic shift bounds"""
    acc = trs.read_time_range_row(immutables.Map(), {"schedule_id": "x", "start_time": "08:00:00", "end_time": "17:00:00"})
    fn = acc["x"]
    names = fn.__code__.co_freevars
    cells = []
    for n in names:
        if n == "start_time":
            cells.append(types.CellType(s))
        elif n == "end_time":
            cells.append(types.CellType(e))
        else:
            cells.append(fn.__closure__[names.index(n)])
    return types.FunctionType(fn.__code__, fn.__globals__, fn.__name__, fn.__defaults__, tuple(cells))


def h_range(s: int, e: int, x: int) -> bool:
    """
    pre: 0 <= s < 86400 and 0 <= e < 86400 and 0 <= x < 86400
    post: _
    """
    got = time_in_range(s, e, x)  # ---- real code (polymorphic in the time type)
    note("range", "wrap" if s > e else ("empty" if s == e else "plain"), bool(got))
    return got == _in_shift(s, e, x)


def _times(s, e):
    if boot.SYMBOLIC:
        return Tod(s), Tod(e)
    return dtime(s // 3600, (s // 60) % 60, s % 60), dtime(e // 3600, (e // 60) % 60, e % 60)


class _Sim:
    def __init__(self, t):
        self.sim_time = t


def h_sched(s: int, e: int, T: int) -> bool:
    """
    pre: 0 <= s < 86400 and 0 <= e < 86400 and 0 <= T <= 2000000000
    post: _
    """
    if boot.SYMBOLIC:
        trs.datetime = _DatetimeShim
    ts, te = _times(s, e)
    fn = _closure(ts, te)
    got = fn(_Sim(T if boot.SYMBOLIC else int(T)), "v0")  # ---- real closure code
    note("sched", "wrap" if s > e else ("empty" if s == e else "plain"), bool(got))
    return got == _in_shift(s, e, T % DAY)


def _human(vid, available, sched):
    attr = HumanDriverAttributes(vid, sched, "b0", False)
    return HumanAvailable(attr) if available else HumanUnavailable(attr)


def h_drv(T: int, dt: int, s0: int, e0: int, s1: int, e1: int, a0: bool, a1: bool, k0: int) -> bool:
    """
    k0: what v0 is doing when its driver is updated -- 0 idle, 1 carrying a passenger (ServicingTrip), 2 charging at a
    station, 3 on its way to a request: the shift applies whatever the activity
    pre: 0 <= k0 <= 3
    pre: 0 <= T <= 2000000000 and 1 <= dt <= 3600
    pre: 0 <= s0 < 86400 and 0 <= e0 < 86400 and 0 <= s1 < 86400 and 0 <= e1 < 86400
    post: _
    """
    if boot.SYMBOLIC:
        trs.datetime = _DatetimeShim
    av0 = True if a0 else False
    av1 = True if a1 else False
    f0 = _closure(*_times(s0, e0))
    f1 = _closure(*_times(s1, e1))
    env, rec = A.env_with_recorder(A.ENV0._replace(schedules=immutables.Map({"sch0": f0, "sch1": f1})))
    if k0 != CASE % 4:
        return True  # (one activity per condition: CASE)
    st0 = None
    for i, (kind, cell) in enumerate(((0, 0), (10, 2), (3, 0), (9, 0))):
        if k0 == i:
            st0 = A.make_state(A.VSpec("v0", kind, cell, plug="LEVEL_2"))
            c0 = cell
    if st0 is None:
        return True
    v0 = replace(A.V0, driver_state=_human("v0", av0, "sch0"), vehicle_state=st0, position=A.POS[c0])
    v1 = replace(A.V1, driver_state=_human("v1", av1, "sch1"), position=A.POS[3])
    v2 = A.V2
    sim = A.SIM0._replace(sim_time=mk_time(T), sim_timestep_duration_seconds=dt)
    for v in (v0, v1, v2):
        sim = sso.add_vehicle_safe(sim, v).unwrap()

    snap0 = I.snap_sim(sim)

    sim2 = perform_driver_state_updates(sim, env)  # ---- real code

    if not I.deq(snap0, I.snap_sim(sim)):
        return False  # the state the update started from reads the same afterwards (C16)

    want0 = _in_shift(s0, e0, T % DAY)
    want1 = _in_shift(s1, e1, T % DAY)
    got0 = sim2.vehicles["v0"].driver_state.available
    got1 = sim2.vehicles["v1"].driver_state.available
    note("drv", k0, "v0", "on" if av0 else "off", "->", "on" if got0 else "off", "v1", "on" if av1 else "off", "->", "on" if got1 else "off")
    if got0 != want0 or got1 != want1:
        return False
    events = [(r.report["vehicle_id"], r.report["schedule_event"]) for r in rec.reports if r.report_type.name == "DRIVER_SCHEDULE_EVENT"]
    expect = []
    if want0 != av0:
        expect.append(("v0", "on" if want0 else "off"))
    if want1 != av1:
        expect.append(("v1", "on" if want1 else "off"))
    if sorted(events) != sorted(expect):
        return False
    if len(rec.reports) != len(events):
        return False
    # frame: only driver states may change
    if sim2.vehicles["v10"] is not sim.vehicles["v10"]:
        return False
    for vid in ("v0", "v1"):
        a, b = sim.vehicles[vid], sim2.vehicles[vid]
        if replace(b, driver_state=a.driver_state) != a:
            return False
        if b.driver_state.attributes != a.driver_state.attributes:
            return False
    return sim2.stations is sim.stations and sim2.bases is sim.bases and sim2.requests is sim.requests and I.idx_ok(sim2)


def h_step_shift(T: int, s0: int, e0: int, a0: bool) -> bool:
    """
    real StepSimulation.update (driver updates -> generators -> instructions) with the built-in Dispatcher, one human-driven
    idle vehicle next to a waiting request: the request is assigned to it in this step iff the step's start time lies inside
    the shift -- whatever the driver's availability was in the previous step (shift ending / starting exactly now)
    pre: 0 <= T <= 2000000000 and 0 <= s0 < 86400 and 0 <= e0 < 86400
    post: _
    """
    from nrel.hive.state.simulation_state.update.step_simulation import StepSimulation
    from nrel.hive.dispatcher.instruction_generator.dispatcher import Dispatcher

    stubs.install_np_shim()
    stubs.install_h3_shim()
    stubs.install_time_diff_shim()
    if boot.SYMBOLIC:
        trs.datetime = _DatetimeShim
    av0 = True if a0 else False
    f0 = _closure(*_times(s0, e0))
    env, rec = A.env_with_recorder(A.ENV0._replace(schedules=immutables.Map({"sch0": f0})))
    v0 = replace(A.V0, driver_state=_human("v0", av0, "sch0"), position=A.POS[3], energy=immutables.Map({A.E: 40.0}))
    sim = A.SIM0._replace(sim_time=mk_time(T), sim_timestep_duration_seconds=60)
    sim = sso.add_vehicle_safe(sim, v0).unwrap()
    sim = sso.add_request_safe(sim, A.R0).unwrap()
    step = StepSimulation.from_tuple((Dispatcher(env.config.dispatcher),))

    snap0 = I.snap_sim(sim)

    sim2, _ = step.update(sim, env)  # ---- real code

    if not I.deq(snap0, I.snap_sim(sim)):
        return False  # the state the step started from reads the same afterwards (C16)
    on = _in_shift(s0, e0, T % DAY)
    st = sim2.vehicles["v0"].vehicle_state
    heading = isinstance(st, (A.DispatchTrip, A.ServicingTrip))
    note("stepshift", "was-on" if av0 else "was-off", "on" if on else "off", "dispatched" if heading else "not")
    if sim2.vehicles["v0"].driver_state.available != on:
        return False
    return heading == on
