"""
The representation invariant INV (DESIGN §3.2) as Python predicates over a SimulationState,
plus deep snapshots / structural equality used for atomicity (C09) and persistence (C16).

Every predicate is evaluated by the same code on pre-states and post-states, under
CrossHair (symbolic leaves) and in concrete replay.
"""
from __future__ import annotations

import collections.abc
import dataclasses
import uuid

import h3
import immutables

from vf import boot

from vf.h import arena as A
from vf.h.arena import (
    ChargingStation,
    ChargeQueueing,
    ReserveBase,
    ChargingBase,
    DispatchStation,
    DispatchBase,
    DispatchTrip,
    ServicingTrip,
    ServicingPoolingTrip,
    DispatchPoolingTrip,
    Repositioning,
)


# ----------------------------------------------------------------------------- I-cnt (C02)
def counts_ok(sim, w) -> bool:
    """per station & installed plug and per base: counters == ghosts + modelled users"""
    ok = True
    for sid in ("s0", "s1"):
        station = sim.stations[sid]
        for plug in sorted(station.state.keys()):
            cs = station.state[plug]
            n_c = w.ghost_c.get((sid, plug), 0)
            n_q = w.ghost_q.get((sid, plug), 0)
            for vid in w.vids:
                st = sim.vehicles[vid].vehicle_state
                if isinstance(st, ChargingStation) and st.station_id == sid and st.charger_id == plug:
                    n_c = n_c + 1
                elif isinstance(st, ChargingBase) and st.charger_id == plug:
                    b = sim.bases.get(st.base_id)
                    if b is not None and b.station_id == sid:
                        n_c = n_c + 1
                elif isinstance(st, ChargeQueueing) and st.station_id == sid and st.charger_id == plug:
                    n_q = n_q + 1
            tot = w.tot[(sid, plug)]
            if not (cs.total_chargers == tot):
                ok = False
            if not (0 <= cs.available_chargers and cs.available_chargers <= tot):
                ok = False
            if not (tot - cs.available_chargers == n_c):
                ok = False
            if not (cs.enqueued_vehicles == n_q):
                ok = False
    for bid in ("b0", "b1", "b2"):
        base = sim.bases[bid]
        n = w.stall_ghost[bid]
        for vid in w.vids:
            st = sim.vehicles[vid].vehicle_state
            if isinstance(st, (ReserveBase, ChargingBase)) and st.base_id == bid:
                n = n + 1
        tot = w.stall_tot[bid]
        if not (base.total_stalls == tot):
            ok = False
        if not (0 <= base.available_stalls and base.available_stalls <= tot):
            ok = False
        if not (tot - base.available_stalls == n):
            ok = False
    return ok


# ----------------------------------------------------------------------------- I-loc (C07)
def _route_ok(route, vehicle, target_geoid) -> bool:
    if len(route) == 0:
        return target_geoid is None or vehicle.geoid == target_geoid
    if route[0].start != vehicle.geoid:
        return False
    for i in range(len(route) - 1):
        if route[i].end != route[i + 1].start:
            return False
    return target_geoid is None or route[-1].end == target_geoid


def loc_ok_vehicle(sim, v) -> bool:
    st = v.vehicle_state
    if isinstance(st, (ChargingStation, ChargeQueueing)):
        s = sim.stations.get(st.station_id)
        return s is not None and s.geoid == v.geoid
    if isinstance(st, (ReserveBase, ChargingBase)):
        b = sim.bases.get(st.base_id)
        return b is not None and b.geoid == v.geoid
    if isinstance(st, DispatchStation):
        s = sim.stations.get(st.station_id)
        return s is not None and _route_ok(st.route, v, s.geoid)
    if isinstance(st, DispatchBase):
        b = sim.bases.get(st.base_id)
        return b is not None and _route_ok(st.route, v, b.geoid)
    if isinstance(st, DispatchTrip):
        r = sim.requests.get(st.request_id)
        # the request may have been picked up by someone else / cancelled: the vehicle then idles on arrival
        return _route_ok(st.route, v, r.geoid if r is not None else None)
    if isinstance(st, ServicingTrip):
        return _route_ok(st.route, v, st.request.destination)
    if isinstance(st, Repositioning):
        return _route_ok(st.route, v, None)
    if isinstance(st, DispatchPoolingTrip):
        # sent to the first stop of its plan: the route ends where that request waits (if it still does)
        target = None
        if len(st.trip_plan) > 0:
            r = sim.requests.get(st.trip_plan[0][0])
            if r is not None:
                target = r.geoid
        return _route_ok(st.route, v, target)
    if isinstance(st, ServicingPoolingTrip):
        return _route_ok(st.route, v, None)
    return True


def loc_ok(sim, vids) -> bool:
    ok = True
    for vid in vids:
        if not loc_ok_vehicle(sim, sim.vehicles[vid]):
            ok = False
    return ok


# ----------------------------------------------------------------------------- I-idx (C08)
def _index_of(entities, res):
    loc = {}
    for eid, e in entities.items():
        g = e.geoid if res is None else h3.h3_to_parent(e.geoid, res)
        loc.setdefault(g, set()).add(eid)
    return {g: frozenset(s) for g, s in loc.items()}


def idx_ok(sim) -> bool:
    res = sim.sim_h3_search_resolution
    pairs = (
        (sim.vehicles, sim.v_locations, sim.v_search),
        (sim.requests, sim.r_locations, sim.r_search),
        (sim.stations, sim.s_locations, sim.s_search),
        (sim.bases, sim.b_locations, sim.b_search),
    )
    for ents, locs, search in pairs:
        if dict(locs.items()) != _index_of(ents, None):
            return False
        if dict(search.items()) != _index_of(ents, res):
            return False
    return True


# ----------------------------------------------------------------------------- I-req (C17 / C03)
def req_ok(sim, vids) -> bool:
    """
    r.dispatched_vehicle = v (a modelled vehicle)  =>  v is in DispatchTrip(r) (or in a DispatchPoolingTrip whose plan names r);
    a request that is on board some vehicle is not waiting in sim.requests.
    """
    ok = True
    for rid, r in sim.requests.items():
        dv = r.dispatched_vehicle
        if dv is not None and dv in vids:
            st = sim.vehicles[dv].vehicle_state
            if isinstance(st, DispatchPoolingTrip):
                if not any(r_id == rid for r_id, _ in st.trip_plan):
                    ok = False
            elif not (isinstance(st, DispatchTrip) and st.request_id == rid):
                ok = False
    for vid in vids:
        st = sim.vehicles[vid].vehicle_state
        if isinstance(st, ServicingTrip) and st.request.id in sim.requests:
            ok = False
        if isinstance(st, ServicingPoolingTrip):
            for rid in st.boarded_requests.keys():
                if rid in sim.requests:
                    ok = False
    return ok


# ----------------------------------------------------------------------------- I-mem (C10)
def _grants(target_membership, vehicle) -> bool:
    return target_membership.grant_access_to_membership(vehicle.membership)


def mem_ok_vehicle(sim, v) -> bool:
    st = v.vehicle_state
    if isinstance(st, (ChargingStation, ChargeQueueing, DispatchStation)):
        s = sim.stations.get(st.station_id)
        return s is None or _grants(s.membership, v)
    if isinstance(st, (ReserveBase, ChargingBase, DispatchBase)):
        b = sim.bases.get(st.base_id)
        return b is None or _grants(b.membership, v)
    if isinstance(st, DispatchTrip):
        r = sim.requests.get(st.request_id)
        return r is None or _grants(r.membership, v)
    if isinstance(st, ServicingTrip):
        return _grants(st.request.membership, v)
    if isinstance(st, DispatchPoolingTrip):
        # every request of the plan that is still waiting admits the vehicle
        ok = True
        for rid, _phase in st.trip_plan:
            r = sim.requests.get(rid)
            if r is not None and not _grants(r.membership, v):
                ok = False
        return ok
    return True


# ----------------------------------------------------------------------------- snapshots
_SKIP_TYPES = ("HaversineRoadNetwork", "OSMRoadNetwork", "TabularPowertrain", "TabularPowercurve", "ndarray")
_PLAIN = (int, float, str, bool, type(None), bytes)


def _snapshot(obj, skip_instance_ids):
    t = type(obj)
    name = t.__name__
    if name in _SKIP_TYPES:
        return ("obj", name)
    if t is uuid.UUID:
        return ("uuid",) if skip_instance_ids else obj
    if name == "MapOrderView":
        obj = obj.m  # (stubs.MapOrderView: a real Map plus an iteration order; the snapshot is order-free)
        t = type(obj)
    if t is immutables.Map:
        items = sorted(obj.items(), key=lambda kv: str(kv[0]))
        return ("map", tuple((k, _snapshot(v, skip_instance_ids)) for k, v in items))
    if t in (frozenset, set):
        return ("set", tuple(sorted((_snapshot(x, skip_instance_ids) for x in obj), key=repr)))
    if isinstance(obj, tuple) and hasattr(obj, "_fields"):
        return ("nt", name, tuple(_snapshot(x, skip_instance_ids) for x in obj))
    if dataclasses.is_dataclass(obj) and not isinstance(obj, type):
        return (
            "dc",
            name,
            tuple((f.name, _snapshot(getattr(obj, f.name), skip_instance_ids)) for f in dataclasses.fields(obj)),
        )
    if t in (tuple, list):
        return ("seq", tuple(_snapshot(x, skip_instance_ids) for x in obj))
    if t is dict or isinstance(obj, collections.abc.Mapping):  # incl. CrossHair's ShellMutableMap (dict(...) under tracing)
        items = sorted(obj.items(), key=lambda kv: str(kv[0]))
        return ("dict", tuple((k, _snapshot(v, skip_instance_ids)) for k, v in items))
    return obj


def snapshot(obj, skip_instance_ids=False):
    """
    deep structural copy into nested tuples; leaves (ints, floats, strs -- possibly symbolic)
    are kept by reference, which is sound because they are immutable.  Runs outside CrossHair
    tracing: it only copies structure, no operation is performed on a leaf.
    """
    with boot.no_tracing():
        return _snapshot(obj, skip_instance_ids)


def _walk(a, b, pairs) -> bool:
    """structural walk of two snapshots; collects leaf pairs that need a (possibly symbolic) =="""
    if a is b:
        return True
    ta, tb = type(a), type(b)
    if ta is tuple and tb is tuple:
        if len(a) != len(b):
            return False
        for x, y in zip(a, b):
            if not _walk(x, y, pairs):
                return False
        return True
    if ta is tuple or tb is tuple:
        return False
    if ta in _PLAIN and tb in _PLAIN:
        return a == b
    if callable(a) or callable(b):
        return False
    pairs.append((a, b))
    return True


def deq(a, b) -> bool:
    """structural equality of two snapshots; only leaves that are not the same object are compared (maybe symbolically)"""
    pairs = []
    with boot.no_tracing():
        same = _walk(a, b, pairs)
    if not same:
        return False
    for x, y in pairs:
        if not (x == y):
            return False
    return True


SIM_STATE_FIELDS = (
    "sim_time",
    "sim_timestep_duration_seconds",
    "stations",
    "bases",
    "vehicles",
    "requests",
    "applied_instructions",
    "v_locations",
    "r_locations",
    "s_locations",
    "b_locations",
    "v_search",
    "r_search",
    "s_search",
    "b_search",
)


def snap_sim(sim, skip_instance_ids=False, skip_fields=()):
    with boot.no_tracing():
        return tuple(
            (f, _snapshot(getattr(sim, f), skip_instance_ids)) for f in SIM_STATE_FIELDS if f not in skip_fields
        )
