"""
Environment stubs used by harnesses (each is listed in the evidence of the checks that use it).

  NpShim   stands in for the module-global `np` of tabular_powercurve / tabular_powertrain:
           `interp` is a pure-Python piecewise-linear interpolation with numpy's semantics
           (clamped at both ends) so that symbolic floats are not realised; everything else
           delegates to numpy.  validate_interp() cross-checks it against numpy.
  H3Shim   stands in for the module-global `h3` of nrel.hive.util.h3_ops: `geo_to_h3` on a
           *symbolic* coordinate returns a solver-chosen cell among the candidates installed
           by the harness (cells on the link being traversed); on concrete input it is h3.
           Contract: the interpolated point of a link lies in a cell on that link.
  SymTime  a clock value wrapping a (symbolic) int; arithmetic/comparisons delegate to it,
           formatting is constant (SimTime subclasses int: building it realises the value).
"""
from __future__ import annotations

import h3 as _h3
import numpy as _np

from vf import boot


class NpShim:
    def __init__(self):
        self._cache = {}

    def __getattr__(self, name):
        return getattr(_np, name)

    def _table(self, xp, fp):
        key = (id(xp), id(fp))
        t = self._cache.get(key)
        if t is None:
            with boot.no_tracing():
                t = ([float(x) for x in xp], [float(y) for y in fp])
            self._cache[key] = t
        return t

    def interp(self, x, xp, fp):
        if not boot.is_symbolic(x):
            return _np.interp(x, xp, fp)
        xs, ys = self._table(xp, fp)
        n = len(xs)
        if x <= xs[0]:
            return ys[0]
        if x >= xs[n - 1]:
            return ys[n - 1]
        for i in range(n - 1):
            if x <= xs[i + 1]:
                x0, x1, y0, y1 = xs[i], xs[i + 1], ys[i], ys[i + 1]
                if x1 == x0:
                    return y1
                return y0 + (y1 - y0) * ((x - x0) / (x1 - x0))
        return ys[n - 1]


def py_interp(x, xs, ys):
    """the same model on plain lists (used for translation validation)"""
    n = len(xs)
    if x <= xs[0]:
        return ys[0]
    if x >= xs[n - 1]:
        return ys[n - 1]
    for i in range(n - 1):
        if x <= xs[i + 1]:
            x0, x1, y0, y1 = xs[i], xs[i + 1], ys[i], ys[i + 1]
            if x1 == x0:
                return y1
            return y0 + (y1 - y0) * ((x - x0) / (x1 - x0))
    return ys[n - 1]


def validate_interp(xp, fp, points) -> int:
    """cross-check the interpolation model against numpy; returns number of points compared"""
    xs = [float(v) for v in xp]
    ys = [float(v) for v in fp]
    n = 0
    for x in points:
        a = py_interp(x, xs, ys)
        b = float(_np.interp(x, xp, fp))
        assert abs(a - b) <= 1e-9 * max(1.0, abs(b)), (x, a, b)
        n += 1
    return n


class H3Shim:
    def __init__(self):
        self.candidates = ()
        self.pick = 0
        self.calls = 0
        self.last = None
        self.link = None
        self._lines = {}

    def __getattr__(self, name):
        return getattr(_h3, name)

    def _auto_candidates(self):
        """cells on the link being traversed: one after the start, the middle, the end"""
        link = self.link
        if link is None:
            return ()
        key = (link.start, link.end)
        c = self._lines.get(key)
        if c is None:
            with boot.no_tracing():
                line = _h3.h3_line(link.start, link.end)
                c = (line[min(1, len(line) - 1)], line[len(line) // 2], line[-1])
            self._lines[key] = c
        return c

    def geo_to_h3(self, lat, lon, res):
        if not (boot.is_symbolic(lat) or boot.is_symbolic(lon)):
            return _h3.geo_to_h3(lat, lon, res)
        self.calls += 1
        self.last = (lat, lon)
        cands = self.candidates if self.candidates else self._auto_candidates()
        p = self.pick
        for i in range(len(cands)):
            if p == i:
                return cands[i]
        return cands[-1]


NP_SHIM = NpShim()
H3_SHIM = H3Shim()


def install_np_shim():
    from nrel.hive.model.vehicle.mechatronics.powercurve import tabular_powercurve
    from nrel.hive.model.vehicle.mechatronics.powertrain import tabular_powertrain

    if boot.SYMBOLIC:
        tabular_powercurve.np = NP_SHIM
        tabular_powertrain.np = NP_SHIM


def install_h3_shim():
    from nrel.hive.util import h3_ops

    if boot.SYMBOLIC and h3_ops.h3 is not H3_SHIM:
        h3_ops.h3 = H3_SHIM
        real_pal = h3_ops.H3Ops.point_along_link.__func__

        def point_along_link(cls, link, available_time_seconds):
            H3_SHIM.link = link  # the real code below runs unchanged; the shim only learns which link is split
            return real_pal(cls, link, available_time_seconds)

        h3_ops.H3Ops.point_along_link = classmethod(point_along_link)


class SymTime:
    """clock value for symbolic harnesses; in concrete mode harnesses use the real SimTime"""

    __slots__ = ("t",)

    def __init__(self, t):
        self.t = t.t if isinstance(t, SymTime) else t

    def _v(self, o):
        return o.t if isinstance(o, SymTime) else o

    def __add__(self, o):
        return SymTime(self.t + self._v(o))

    __radd__ = __add__

    def __sub__(self, o):
        return SymTime(self.t - self._v(o))

    def __rsub__(self, o):
        return SymTime(self._v(o) - self.t)

    def __mul__(self, o):
        return SymTime(self.t * self._v(o))

    __rmul__ = __mul__

    # SimTime is an int subclass: every other int operation is inherited and yields a plain int
    def __floordiv__(self, o):
        return self.t // self._v(o)

    def __rfloordiv__(self, o):
        return self._v(o) // self.t

    def __mod__(self, o):
        return self.t % self._v(o)

    def __rmod__(self, o):
        return self._v(o) % self.t

    def __divmod__(self, o):
        return (self.t // self._v(o), self.t % self._v(o))

    def __truediv__(self, o):
        return self.t / self._v(o)

    def __rtruediv__(self, o):
        return self._v(o) / self.t

    def __neg__(self):
        return -self.t

    def __pos__(self):
        return self.t

    def __abs__(self):
        return abs(self.t)

    def __bool__(self):
        return self.t != 0

    def __lt__(self, o):
        return self.t < self._v(o)

    def __le__(self, o):
        return self.t <= self._v(o)

    def __gt__(self, o):
        return self.t > self._v(o)

    def __ge__(self, o):
        return self.t >= self._v(o)

    def __eq__(self, o):
        if o is None:
            return False
        return self.t == self._v(o)

    def __ne__(self, o):
        return not self.__eq__(o)

    def __hash__(self):
        return 0

    def __int__(self):
        return self.t

    __index__ = __int__

    def __str__(self):
        return "<symtime>"

    __repr__ = __str__

    def as_iso_time(self):
        return "<symtime>"

    def __format__(self, spec):
        return "<symtime>"

    def __ch_deep_realize__(self, memo):
        # formatting (f-strings in log / error messages) must not realise the clock value
        return self

    def as_epoch_time(self):
        return self.t

    def as_datetime_time(self):
        return SymTod(self.t % 86400)


class SymTod:
    """seconds-of-day stand-in for datetime.time (what utcfromtimestamp(t).time() yields for t >= 0)"""

    __slots__ = ("s",)

    def __init__(self, s):
        self.s = s

    def __lt__(self, o):
        return self.s < o.s

    def __le__(self, o):
        return self.s <= o.s

    def __gt__(self, o):
        return self.s > o.s

    def __ge__(self, o):
        return self.s >= o.s

    def __eq__(self, o):
        return isinstance(o, SymTod) and self.s == o.s

    def __hash__(self):
        return 0

    def __format__(self, spec):
        return "<symtod>"

    def __ch_deep_realize__(self, memo):
        return self


class SymDelta:
    """stand-in for datetime.timedelta carrying (symbolic) seconds"""

    __slots__ = ("sec",)

    def __init__(self, sec):
        self.sec = sec

    def total_seconds(self):
        return self.sec

    def __eq__(self, o):
        return isinstance(o, SymDelta) and self.sec == o.sec

    def __hash__(self):
        return 0

    def __format__(self, spec):
        return "<symdelta>"

    def __ch_deep_realize__(self, memo):
        return self

    def __str__(self):
        return "<symdelta>"

    __repr__ = __str__


def install_time_diff_shim():
    """
    report builders call time_helpers.time_diff on datetime.time values; with SymTime clocks
    those are SymTod.  Model: (end - start) mod 86400 seconds, which is what time_diff computes
    for times of day (validated against the real function by the C19 wait-time harness).
    """
    if not boot.SYMBOLIC:
        return
    from nrel.hive.reporting import vehicle_event_ops
    from nrel.hive.util import time_helpers

    real = time_helpers.time_diff

    def _sec(x):
        return x.s if isinstance(x, SymTod) else x.hour * 3600 + x.minute * 60 + x.second

    def time_diff(start, end):
        if isinstance(start, SymTod) or isinstance(end, SymTod):
            return SymDelta((_sec(end) - _sec(start)) % 86400)
        return real(start, end)

    vehicle_event_ops.time_diff = time_diff


def mk_time(t):
    """SymTime under CrossHair, the real SimTime in replay"""
    if boot.SYMBOLIC:
        return SymTime(t)
    from nrel.hive.model.sim_time import SimTime

    return SimTime(t)


class OrderedView:
    """
    same elements as an unordered container, iteration order chosen by the solver:
    `order` is a tuple of (symbolic) ints; element k is emitted at the position of its rank.
    Stands in for set / frozenset / h3.k_ring results whose real iteration order depends on
    the interpreter's string-hash seed.
    """

    def __init__(self, items, perm):
        self.items = tuple(items)
        self.perm = perm  # concrete tuple (a permutation of range(len(items))) decoded by the harness

    def __len__(self):
        return len(self.items)

    def __contains__(self, x):
        return x in self.items

    def __iter__(self):
        for i in self.perm:
            yield self.items[i]

    def __eq__(self, o):
        if isinstance(o, OrderedView):
            return set(self.items) == set(o.items)
        if isinstance(o, (set, frozenset)):
            return set(self.items) == o
        return NotImplemented

    def __hash__(self):
        return hash(frozenset(self.items))

    def union(self, other):
        return frozenset(self.items).union(other)

    def __repr__(self):
        return "OrderedView(%r)" % (self.items,)

    def __ch_deep_realize__(self, memo):
        return self


PERMS2 = ((0, 1), (1, 0))
PERMS3 = ((0, 1, 2), (0, 2, 1), (1, 0, 2), (1, 2, 0), (2, 0, 1), (2, 1, 0))


def perm_of(i, n):
    """decode a (symbolic) index into a concrete permutation of range(n), n in {1, 2, 3}"""
    if n == 1:
        return (0,)
    table = PERMS2 if n == 2 else PERMS3
    for k in range(len(table)):
        if i == k:
            return table[k]
    return None


def sym_int(x):
    """
    int() that stays symbolic on a real-modelled float: CrossHair's patched builtin int() deep-realises any symbolic
    value that is not already an int, which turns a search into an enumeration.  RealBasedSymbolicFloat.__int__ itself
    is exact (truncation via z3 ToInt); this helper just calls it directly.
    """
    if boot.is_symbolic(x):
        return x.__int__()
    return int(x)


def install_units_int_shim():
    """hours_to_seconds (whole-second rounding of travel times) reads the module-global name `int`"""
    from nrel.hive.util import units

    if boot.SYMBOLIC:
        units.int = sym_int


class MapOrderView:
    """
    an immutables.Map whose bulk iteration (values / keys / items / iter) follows a solver-chosen order of its keys;
    lookups and persistent updates delegate to the real Map; replacing the value of an existing key keeps the view (and
    its order), any other update returns a real Map.
    """

    def __init__(self, m, order):
        self.m = m
        self.order = tuple(order)  # concrete tuple of keys

    def values(self):
        return [self.m[k] for k in self.order]

    def keys(self):
        return list(self.order)

    def items(self):
        return [(k, self.m[k]) for k in self.order]

    def __iter__(self):
        return iter(self.order)

    def __len__(self):
        return len(self.m)

    def __contains__(self, k):
        return k in self.m

    def __getitem__(self, k):
        return self.m[k]

    def get(self, k, default=None):
        return self.m.get(k, default)

    def set(self, k, v):
        # (a HAMT's iteration order is a function of the key hashes: replacing the value of an existing key keeps it)
        return MapOrderView(self.m.set(k, v), self.order) if k in self.m else self.m.set(k, v)

    def delete(self, k):
        return self.m.delete(k)

    def update(self, *a, **k):
        return self.m.update(*a, **k)

    def __eq__(self, o):
        return self.m == (o.m if isinstance(o, MapOrderView) else o)

    def __hash__(self):
        return hash(self.m)

    def __ch_deep_realize__(self, memo):
        return self


class PermMap:
    """
    stand-in for an immutables.Map *created inside* the code under test (see install_perm_maps): a persistent mapping whose
    bulk iteration order is the sorted key order rearranged by the module-level permutation PermMap.PERM (a tuple over
    range(3), set by the harness from a solver-chosen index); maps of another size iterate in sorted order.
    """

    PERM = (0, 1, 2)

    def __init__(self, *a, **kw):
        self.d = dict(*a, **kw)

    def _order(self):
        ks = sorted(self.d.keys(), key=lambda k: str(k))
        if len(ks) == 3:
            return [ks[i] for i in PermMap.PERM]
        if len(ks) == 2 and PermMap.PERM[0] > PermMap.PERM[1]:
            return [ks[1], ks[0]]
        return ks

    def set(self, k, v):
        n = PermMap(self.d)
        n.d[k] = v
        return n

    def delete(self, k):
        n = PermMap(self.d)
        del n.d[k]
        return n

    def update(self, *a, **kw):
        n = PermMap(self.d)
        n.d.update(*a, **kw)
        return n

    def get(self, k, default=None):
        return self.d.get(k, default)

    def __getitem__(self, k):
        return self.d[k]

    def __contains__(self, k):
        return k in self.d

    def __len__(self):
        return len(self.d)

    def __bool__(self):
        return len(self.d) > 0

    def __iter__(self):
        return iter(self._order())

    def keys(self):
        return self._order()

    def values(self):
        return [self.d[k] for k in self._order()]

    def items(self):
        return [(k, self.d[k]) for k in self._order()]

    def __eq__(self, o):
        return self.d == (o.d if isinstance(o, PermMap) else dict(o.items()))

    def __hash__(self):
        return hash(tuple(sorted(self.d.items(), key=lambda kv: str(kv[0]))))

    def __class_getitem__(cls, item):  # immutables.Map[K, V] in annotations
        return cls


class _ImmutablesShim:
    """module stand-in: `immutables.Map(...)` evaluated inside the patched module builds a PermMap"""

    Map = PermMap

    def __getattr__(self, name):
        import immutables as _imm

        return getattr(_imm, name)


def install_perm_maps(module):
    """every immutables.Map that functions of `module` create from now on iterates in a harness-chosen order; Maps that are
    passed in (fields of the state) are untouched.  Also binds the name when the module does not import immutables."""
    module.immutables = _ImmutablesShim()


# ----------------------------------------------------------------------------- randomness
class SymRandom:
    """
    stand-in for the `random` module and for random.Random instances held in module globals of nrel.hive: every draw is a
    fresh solver-chosen value of its documented range ("environment = nondeterministic stub").  Nothing in the pinned tree
    draws random numbers inside a simulation step; the stub exists so that code which starts to do so is analysed with the
    draws as free variables instead of one concrete pseudo-random sequence.
    """

    draws = 0

    def _fresh(self, typ):
        from crosshair.core import proxy_for_type

        SymRandom.draws += 1
        return proxy_for_type(typ, "random_draw_%d" % SymRandom.draws)

    def random(self):
        x = self._fresh(float)
        if not ((0.0 <= x) & (x < 1.0)):
            raise _ignore()
        return x

    def uniform(self, a, b):
        return a + (b - a) * self.random()

    def randint(self, a, b):
        x = self._fresh(int)
        if not ((a <= x) & (x <= b)):
            raise _ignore()
        return x

    def randrange(self, a, b=None):
        return self.randint(0, a - 1) if b is None else self.randint(a, b - 1)

    def choice(self, seq):
        i = self.randint(0, len(seq) - 1)
        for k in range(len(seq)):
            if i == k:
                return seq[k]
        return seq[0]

    def shuffle(self, xs):
        if len(xs) == 2 and self.randint(0, 1) == 1:
            xs[0], xs[1] = xs[1], xs[0]
        elif len(xs) == 3:
            p = perm_of(self.randint(0, 5), 3) or (0, 1, 2)
            ys = [xs[i] for i in p]
            xs[:] = ys

    def sample(self, seq, k):
        seq = list(seq)
        self.shuffle(seq)
        return seq[:k]

    def seed(self, *a, **k):
        return None

    def getstate(self):
        return ()

    def setstate(self, s):
        return None

    def Random(self, *a, **k):
        return SymRandom()


def _ignore():
    from crosshair.util import IgnoreAttempt

    return IgnoreAttempt("random draw outside its range")


_RANDOM_SCANNED = False


def install_random_shim():
    """rebinds, in every loaded nrel.hive module, globals that are the `random` module or a random.Random instance (symbolic mode only)"""
    import random as _random
    import sys as _sys

    if not boot.SYMBOLIC:
        return 0
    SymRandom.draws = 0  # (called at the start of every path: draw names must repeat from path to path)
    global _RANDOM_SCANNED
    if _RANDOM_SCANNED:
        return 0
    _RANDOM_SCANNED = True
    n = 0
    for name, mod in list(_sys.modules.items()):
        if not name.startswith("nrel.hive") or mod is None:
            continue
        for g, val in list(vars(mod).items()):
            if val is _random or isinstance(val, _random.Random):
                setattr(mod, g, SymRandom())
                n += 1
    return n
