"""
C15 harnesses.

 h_tick   real simulation_state_ops.tick and real Update.apply_update: the clock advances by exactly dt
          (symbolic clock, step, vehicle energy; the two built-in generators run inside).
 h_run    real LocalSimulationRunner.step / run with an Update that only steps: step refuses iff
          sim_time >= end_time; run performs exactly len(range(start, end, dt)) updates, covering the interval.
 h_split  real hive_cosim.crank: crank(a) then crank(b) == crank(a+b) == LocalSimulationRunner.run over the same
          interval, on a payload whose Update carries the real UpdateRequestsFromFile (2 rows with symbolic times),
          CancelRequests and StepSimulation with the built-in Dispatcher; compared are the per-step states
          (modulo instance ids) and the event lists.  CASE = a * 4 + b  (a + b <= 3), + 16: Dispatcher configured before ChargingFleetManager.
"""
import os
from dataclasses import replace

import immutables

from vf import boot
from vf.boot import note
from vf.h import arena as A
from vf.h import inv as I
from vf.h import stubs
from vf.h.stubs import mk_time, SymTime
from vf.h import h_req

from nrel.hive.state.simulation_state import simulation_state_ops as sso
from nrel.hive.state.simulation_state.update.update import Update
from nrel.hive.state.simulation_state.update.step_simulation import StepSimulation
from nrel.hive.state.simulation_state.update.update_requests_from_file import UpdateRequestsFromFile
from nrel.hive.state.simulation_state.update.cancel_requests import CancelRequests
from nrel.hive.model.request.request_rate_structure import RequestRateStructure
from nrel.hive.util.iterators import DictReaderStepper
from nrel.hive.runner.runner_payload import RunnerPayload
from nrel.hive.runner import local_simulation_runner as lsr
from nrel.hive.runner.local_simulation_runner import LocalSimulationRunner
from nrel.hive.app import hive_cosim
from nrel.hive.dispatcher.instruction_generator.dispatcher import Dispatcher
from nrel.hive.dispatcher.instruction_generator.charging_fleet_manager import ChargingFleetManager

stubs.install_np_shim()
stubs.install_h3_shim()
stubs.install_time_diff_shim()

CASE = int(os.environ.get("VF_CASE", "0"))
lsr.tqdm = lambda it, *a, **k: it  # the progress bar is not a subject (and would take len() of a symbolic range)


class RecAll(A.Rec):
    def __init__(self):
        super().__init__()
        self.all = []
        self.flushes = 0

    def flush(self, rp):
        self.all.append(tuple(self.reports))
        self.reports = []
        self.flushes += 1


def _env(start, end, dt, cancel=600):
    # config times are plain (symbolic) ints: the runner applies int() to them
    if not boot.SYMBOLIC:
        from nrel.hive.model.sim_time import SimTime
        start, end = SimTime(start), SimTime(end)
    cfg = A.ENV0.config
    sim_cfg = cfg.sim._replace(
        start_time=start, end_time=end, timestep_duration_seconds=dt, request_cancel_time_seconds=cancel
    )
    rec = RecAll()
    return A.ENV0._replace(config=cfg._replace(sim=sim_cfg), reporter=rec), rec


def _gens(env):
    return (ChargingFleetManager(env.config.dispatcher), Dispatcher(env.config.dispatcher))


from dataclasses import dataclass as _dc
from nrel.hive.dispatcher.instruction_generator.instruction_generator import InstructionGenerator as _IG


@_dc(frozen=True)
class TurnCounter(_IG):
    """a controller that keeps state the documented way: it returns an updated copy of itself every step"""

    turn: int = 0

    def generate_instructions(self, simulation_state, environment):
        return replace(self, turn=self.turn + 1), ()


def h_tick(T: int, dt: int, e: float) -> bool:
    """
    pre: 0 <= T <= 2000000000 and 1 <= dt <= 3600 and 1 <= e <= 50
    post: _
    """
    env, rec = _env(0, 10, dt)
    v = replace(A.V0, energy=immutables.Map({A.E: e}))
    sim = sso.add_vehicle_safe(A.SIM0._replace(sim_time=mk_time(T), sim_timestep_duration_seconds=dt), v).unwrap()
    sim = sso.add_request_safe(sim, A.R0).unwrap()
    if not (sso.tick(sim).sim_time == T + dt):
        return False
    upd = Update((CancelRequests(),), StepSimulation.from_tuple(_gens(env)))
    rp = RunnerPayload(sim, env, upd)
    rp2 = upd.apply_update(rp)  # ---- real code
    note("tick", A.KIND_NAMES[A.kind_of_state(rp2.s.vehicles["v0"].vehicle_state)])
    return rp2.s.sim_time == T + dt and rp2.s.sim_timestep_duration_seconds == dt


class _TickOnly(StepSimulation):
    pass


def h_run(start: int, span: int, dt: int, off: int) -> bool:
    """
    pre: 0 <= start <= 2000000000 and 0 <= span <= 40 and 1 <= dt <= 20 and span <= 4 * dt
    pre: 0 <= off <= 60
    post: _
    """
    end = start + span
    env, rec = _env(start, end, dt)
    sim = A.SIM0._replace(sim_time=mk_time(start), sim_timestep_duration_seconds=dt)
    upd = Update((), StepSimulation.from_tuple(()))
    rp = RunnerPayload(sim, env, upd)
    out = LocalSimulationRunner.run(rp)  # ---- real code
    n = rec.flushes
    # the runner covers exactly [start, end): n steps with (n-1)*dt < span <= n*dt
    if span == 0:
        if n != 0:
            return False
    elif not ((n - 1) * dt < span and span <= n * dt):
        return False
    if not (out.s.sim_time == start + n * dt):
        return False
    # step() refuses iff the clock has reached the end
    probe = RunnerPayload(sim._replace(sim_time=mk_time(start + off)), env, upd)
    stepped = LocalSimulationRunner.step(probe)
    note("run", n, "refused" if stepped is None else "stepped")
    if start + off >= end:
        return stepped is None
    return stepped is not None and stepped.s.sim_time == start + off + dt


A_STEPS = (CASE % 16) // 4
B_STEPS = CASE % 4
DISPATCHER_FIRST = CASE >= 16  # configured generator order: Dispatcher first or ChargingFleetManager first


def _payload(start, dt, d1, d2, e, n_total, dispatcher_first=False):
    rows = [h_req._row("q1", d1), h_req._row("q2", d2)]
    stepper = DictReaderStepper.from_iterator(iter(rows), "departure_time", parser=h_req._parser)
    env, rec = _env(start, start + n_total * dt, dt)
    v = replace(A.V0, energy=immutables.Map({A.E: e}), position=A.POS[3])
    sim = sso.add_vehicle_safe(A.SIM0._replace(sim_time=mk_time(start), sim_timestep_duration_seconds=dt), v).unwrap()
    gens = _gens(env)
    if dispatcher_first:
        gens = (gens[1], gens[0])
    upd = Update(
        (UpdateRequestsFromFile(reader=stepper, rate_structure=RequestRateStructure()), CancelRequests()),
        StepSimulation.from_tuple(gens + (TurnCounter(),)),
    )
    return RunnerPayload(sim, env, upd), rec


def _events(rec):
    return [tuple((r.report_type.name, I.snapshot(dict(r.report), True)) for r in step) for step in rec.all]


def h_split(start: int, dt: int, d1: int, d2: int, e: float) -> bool:
    """
    pre: 0 <= start <= 2000000000 and 30 <= dt <= 120 and 0 <= d1 and d1 <= d2 and d2 <= 2000000000
    pre: 1 <= e <= 50
    post: _
    """
    a, b = A_STEPS, B_STEPS
    n = a + b
    dfirst = DISPATCHER_FIRST
    rp1, rec1 = _payload(start, dt, d1, d2, e, n, dfirst)
    r_a = hive_cosim.crank(rp1, a)  # ---- real code
    # a co-simulation user hands a generator back between two calls (runner_payload_ops): here the same, non-last
    # generator is re-injected unchanged, which must not alter anything -- in particular not the priority order
    from nrel.hive.runner import runner_payload_ops as rpo

    mid = r_a.runner_payload
    first_name = mid.u.step_update.instruction_generator_order[0]
    mid = rpo.update_instruction_generator(mid, rpo.get_instruction_generator(mid, first_name))
    # ... and the whole (unchanged) generator tuple is set again through the bulk API
    mid = rpo.set_instruction_generators(mid, mid.u.step_update.ordered_instruction_generators)
    r_ab = hive_cosim.crank(mid, b)
    rp2, rec2 = _payload(start, dt, d1, d2, e, n, dfirst)
    r_n = hive_cosim.crank(rp2, n)
    rp3, rec3 = _payload(start, dt, d1, d2, e, n, dfirst)
    r_run = LocalSimulationRunner.run(rp3)
    s1, s2, s3 = r_ab.runner_payload.s, r_n.runner_payload.s, r_run.s
    note("split", a, b, len(s2.requests), A.KIND_NAMES[A.kind_of_state(s2.vehicles["v0"].vehicle_state)])
    if not (r_ab.sim_time == start + n * dt and r_n.sim_time == start + n * dt and s3.sim_time == start + n * dt):
        return False
    if not (I.deq(I.snap_sim(s1, True), I.snap_sim(s2, True)) and I.deq(I.snap_sim(s2, True), I.snap_sim(s3, True))):
        return False
    # the stateful controller was carried through every step of every variant
    for rp in (r_ab.runner_payload, r_n.runner_payload, r_run):
        tc = rp.u.step_update.instruction_generators.get("TurnCounter")
        if tc is None or tc.turn != n:
            return False
        if tuple(rp.u.step_update.instruction_generator_order) != tuple(rp1.u.step_update.instruction_generator_order):
            return False
    ev1, ev2, ev3 = _events(rec1), _events(rec2), _events(rec3)
    if not (len(ev1) == n and len(ev2) == n and len(ev3) == n):
        return False
    return I.deq(tuple(ev1), tuple(ev2)) and I.deq(tuple(ev2), tuple(ev3))


def h_restep(T: int, e: float, c0: int) -> bool:
    """
    C16: a saved payload (state + controller) returned by a step is stepped TWICE: both results are equal (modulo instance
    ids) and the saved payload reads the same afterwards.  No file readers (cursors are not part of the simulation state).
    pre: 0 <= T <= 2000000000 and 1 <= e <= 50 and 0 <= c0 <= 2
    post: _
    """
    cell = None
    for k, c in enumerate((0, 3, 1)):
        if c0 == k:
            cell = c
    if cell is None:
        return True
    env, rec = _env(0, 10, 60)
    v = replace(A.V0, energy=immutables.Map({A.E: e}), position=A.POS[cell])
    sim = sso.add_vehicle_safe(A.SIM0._replace(sim_time=mk_time(T), sim_timestep_duration_seconds=60), v).unwrap()
    sim = sso.add_request_safe(sim, A.R0).unwrap()
    upd = Update((CancelRequests(),), StepSimulation.from_tuple(_gens(env)))
    rp0 = RunnerPayload(sim, env, upd)
    rp1 = rp0.u.apply_update(rp0)  # the saved check-point
    snap1 = I.snap_sim(rp1.s)
    order1 = tuple(rp1.u.step_update.instruction_generator_order)
    ra = rp1.u.apply_update(rp1)  # ---- real code, first branch
    rb = rp1.u.apply_update(rp1)  # ---- second branch from the same check-point
    note("restep", A.KIND_NAMES[A.kind_of_state(ra.s.vehicles["v0"].vehicle_state)])
    if not I.deq(I.snap_sim(ra.s, True), I.snap_sim(rb.s, True)):
        return False
    if not I.deq(snap1, I.snap_sim(rp1.s)):
        return False
    return tuple(rp1.u.step_update.instruction_generator_order) == order1 and len(order1) == 2


def _human_payload(T, idle, r1c):
    from nrel.hive.state.driver_state.human_driver_state.human_driver_state import HumanAvailable
    from nrel.hive.state.driver_state.human_driver_state.human_driver_attributes import HumanDriverAttributes

    cell = None
    for k, c in enumerate((2, 5, 1)):  # r1 next to r0 (one dense search cell) / at F / at B (two equally dense search cells)
        if r1c == k:
            cell = c
    if cell is None:
        return None
    env, rec = _env(0, 10, 60)
    drv = HumanAvailable(HumanDriverAttributes("v0", "no-schedule", "b0", False))
    v = replace(
        A.V0, energy=immutables.Map({A.E: 40.0}), position=A.POS[3], driver_state=drv,
        vehicle_state=replace(A.Idle.build("v0"), idle_duration=idle),
    )
    sim = sso.add_vehicle_safe(A.SIM0._replace(sim_time=mk_time(T), sim_timestep_duration_seconds=60), v).unwrap()
    sim = sso.add_request_safe(sim, A.R0).unwrap()
    sim = sso.add_request_safe(sim, replace(A.R1, position=A.POS[cell])).unwrap()
    upd = Update((), StepSimulation.from_tuple(()))  # no fleet controller: only the driver's own decisions
    return RunnerPayload(sim, env, upd)


def _same_restep(rp0, times):
    snap0 = I.snap_sim(rp0.s)
    first = rp0.u.apply_update(rp0)  # ---- real code
    ok = True
    for _ in range(times):
        again = rp0.u.apply_update(rp0)  # ---- the same check-point stepped again
        if not I.deq(I.snap_sim(first.s, True), I.snap_sim(again.s, True)):
            ok = False
    return ok and I.deq(snap0, I.snap_sim(rp0.s)), first


def h_restep_human(T: int, idle: int, r1c: int) -> bool:
    """
    C16: a check-point with a human-driven idle vehicle (symbolic idle time: before / past the time-out after which the driver
    relocates on his own) and two requests in one or in two equally dense search cells is stepped twice: equal results.
    Any randomness reachable from nrel.hive module globals is a solver-chosen draw (stubs.install_random_shim).
    pre: 0 <= T <= 2000000000 and 0 <= idle <= 4000 and 0 <= r1c <= 2
    post: _
    """
    stubs.install_random_shim()
    rp0 = _human_payload(T, idle, r1c)
    if rp0 is None:
        return True
    ok, first = _same_restep(rp0, 1)
    note("restep-human", A.KIND_NAMES[A.kind_of_state(first.s.vehicles["v0"].vehicle_state)])
    return ok


def replay_h_restep_human(T, idle, r1c):
    """replay on the real code: hidden state (e.g. a pseudo-random stream) may need several re-steps to show"""
    rp0 = _human_payload(T, idle, r1c)
    if rp0 is None:
        return True
    ok, _ = _same_restep(rp0, 64)
    return ok
