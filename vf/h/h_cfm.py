"""
H10-cfm: the built-in ChargingFleetManager never sends a vehicle to a station of a fleet it does not belong to.

One real ChargingFleetManager.generate_instructions call on a world with two stations (s0@A, s1@B, symbolic memberships)
and two vehicles with the same mechatronics (symbolic memberships {public, f1, f2, f1+f2}; energy level {must charge, plenty}).
CASE = charging search type (0 nearest_shortest_queue, 1 shortest_time_to_charge) * 4 + placement of (v0, v1):
(A, A) both on the cell of s0, (E, E) both on one cell next to it, (A, E), (B, D).  v0 always needs to charge; v1 may.

Oracle (C10): every DispatchStationInstruction names a station that grants access to the instructed vehicle and a plug that
station installs and the vehicle can use; at most one instruction per vehicle; only vehicles below the soft range threshold
are instructed.  Oracle (C16): the state is unchanged by the call.
"""
import os
from dataclasses import replace

import immutables

from vf import boot
from vf.boot import note
from vf.h import arena as A
from vf.h import inv as I
from vf.h import stubs

from nrel.hive.dispatcher.instruction_generator.charging_fleet_manager import ChargingFleetManager
from nrel.hive.dispatcher.instruction_generator.charging_search_type import ChargingSearchType
from nrel.hive.dispatcher.instruction.instructions import DispatchStationInstruction
from nrel.hive.state.simulation_state import simulation_state_ops as sso

stubs.install_np_shim()
stubs.install_h3_shim()
stubs.install_time_diff_shim()

CASE = int(os.environ.get("VF_CASE", "0"))
SEARCH = (ChargingSearchType.NEAREST_SHORTEST_QUEUE, ChargingSearchType.SHORTEST_TIME_TO_CHARGE)[(CASE // 4) % 2]
PAIRS = ((0, 0), (4, 4), (0, 4), (1, 3))  # A: s0 stands here; E: same search cell as A; B: s1 stands here; D
CELL0, CELL1 = PAIRS[CASE % 4]
LEVELS = (2.0, 40.0)  # kWh: the first is below the charging thresholds of the default dispatcher config


def _pick(i, options):
    for k in range(len(options)):
        if i == k:
            return options[k]
    return None


def _world(c0, c1, l0, l1, m0, m1, ms0, ms1):
    cfg = A.ENV0.config
    dcfg = cfg.dispatcher._replace(charging_search_type=SEARCH)
    env, rec = A.env_with_recorder(A.ENV0._replace(config=cfg._replace(dispatcher=dcfg), fleet_ids=frozenset(["f1", "f2"])))
    sim = A.SIM0
    s0 = replace(sim.stations["s0"], membership=A.MEMBERSHIPS[ms0])
    s1 = replace(sim.stations["s1"], membership=A.MEMBERSHIPS[ms1])
    sim = sim._replace(stations=sim.stations.set("s0", s0).set("s1", s1))
    v0 = replace(A.V0, position=A.POS[c0], membership=A.MEMBERSHIPS[m0], energy=immutables.Map({A.E: l0}))
    v1 = replace(A.V1, position=A.POS[c1], membership=A.MEMBERSHIPS[m1], energy=immutables.Map({A.E: l1}))
    for v in (v0, v1):
        sim = sso.add_vehicle_safe(sim, v).unwrap()
    return sim, env, rec, dcfg


def h_cfm(e0: int, e1: int, mv0: int, mv1: int, ms0: int, ms1: int) -> bool:
    """
    pre: 0 <= e0 <= 0 and 0 <= e1 <= 1
    pre: 0 <= mv0 <= 2 and 0 <= mv1 <= 3 and 0 <= ms0 <= 3 and 0 <= ms1 <= 3
    post: _
    """
    a, b = CELL0, CELL1
    l0, l1 = _pick(e0, LEVELS), _pick(e1, LEVELS)
    m0, m1, n0, n1 = A.memb_of(mv0), A.memb_of(mv1), A.memb_of(ms0), A.memb_of(ms1)
    if None in (a, b, l0, l1, m0, m1, n0, n1):
        return True
    sim, env, rec, dcfg = _world(a, b, l0, l1, m0, m1, n0, n1)
    snap0 = I.snap_sim(sim)

    gen, instrs = ChargingFleetManager(dcfg).generate_instructions(sim, env)  # ---- real code

    seen = set()
    for i in instrs:
        if not isinstance(i, DispatchStationInstruction):
            return False
        if i.vehicle_id in seen:
            return False
        seen.add(i.vehicle_id)
        v = sim.vehicles.get(i.vehicle_id)
        s = sim.stations.get(i.station_id)
        if v is None or s is None:
            return False
        if not s.membership.grant_access_to_membership(v.membership):
            return False
        if i.charger_id not in s.state:
            return False
        mech = env.mechatronics.get(v.mechatronics_id)
        if not mech.valid_charger(env.chargers[i.charger_id]):
            return False
        if v.energy[A.E] >= 40.0:
            return False  # plenty of range: not a charge candidate
    note("cfm", A.CELL_NAME[a], A.CELL_NAME[b], A.MEMB_NAME[m0], A.MEMB_NAME[m1], A.MEMB_NAME[n0], A.MEMB_NAME[n1], len(instrs))
    return I.deq(snap0, I.snap_sim(sim))


def h_cfm_reach(e0: int, e1: int, mv0: int, mv1: int, ms0: int, ms1: int) -> bool:
    """
    reachability twin (must be refuted): two instructions are emitted for two vehicles of different fleets
    pre: 0 <= e0 <= 0 and 0 <= e1 <= 1
    pre: 0 <= mv0 <= 2 and 0 <= mv1 <= 3 and 0 <= ms0 <= 3 and 0 <= ms1 <= 3
    post: _
    """
    a, b = CELL0, CELL1
    l0, l1 = _pick(e0, LEVELS), _pick(e1, LEVELS)
    m0, m1, n0, n1 = A.memb_of(mv0), A.memb_of(mv1), A.memb_of(ms0), A.memb_of(ms1)
    if None in (a, b, l0, l1, m0, m1, n0, n1):
        return True
    if m0 == m1:
        return True
    sim, env, rec, dcfg = _world(a, b, l0, l1, m0, m1, n0, n1)
    gen, instrs = ChargingFleetManager(dcfg).generate_instructions(sim, env)
    return len(instrs) < 2
