"""
H02-prim: the counter primitives with unbounded symbolic counters.

 CASE 0  ChargerState: increment/decrement of available plugs and of the queue counter, add_chargers
 CASE 1  Station: checkout_charger / return_charger / enqueue_for_charger / dequeue_for_charger / append_chargers
 CASE 2  Base: checkout_stall / return_stall

post: a primitive either refuses (error / None) or changes exactly its own counter by exactly one (add/append: by the
given count on BOTH installed and free), never leaving [0, installed]; everything else is untouched.
"""
import os
from dataclasses import replace

from vf import boot
from vf.boot import note
from vf.h import arena as A

CASE = int(os.environ.get("VF_CASE", "0"))


def _cs(tot, av, q):
    return A.S0.state["LEVEL_2"]._replace(total_chargers=tot, available_chargers=av, enqueued_vehicles=q)


def h_prim(op: int, tot: int, av: int, q: int, n: int) -> bool:
    """
    pre: 0 <= op <= 4 and 0 <= av and av <= tot and 0 <= q and 1 <= n
    post: _
    """
    if CASE == 0:
        cs = _cs(tot, av, q)
        if op == 0:
            err, out = cs.increment_available_chargers()
            note("cs", "inc", "refused" if err is not None else "ok")
            if err is not None:
                return av >= tot and out is None
            return out == cs._replace(available_chargers=av + 1) and av + 1 <= tot
        if op == 1:
            err, out = cs.decrement_available_chargers()
            note("cs", "dec", "refused" if err is not None else "ok")
            if err is not None:
                return av == 0 and out is None
            return out == cs._replace(available_chargers=av - 1) and av - 1 >= 0
        if op == 2:
            out = cs.increment_enqueued_vehicles()
            note("cs", "enq")
            return out == cs._replace(enqueued_vehicles=q + 1)
        if op == 3:
            err, out = cs.decrement_enqueued_vehicles()
            note("cs", "deq", "refused" if err is not None else "ok")
            if err is not None:
                return q == 0 and out is None
            return out == cs._replace(enqueued_vehicles=q - 1) and q - 1 >= 0
        out = cs.add_chargers(n)
        note("cs", "add")
        return out == cs._replace(total_chargers=tot + n, available_chargers=av + n)
    if CASE == 1:
        st = replace(A.S0, state=A.S0.state.set("LEVEL_2", _cs(tot, av, q)))
        other = st.state["DCFC"]
        if op == 0:
            err, out = st.checkout_charger("LEVEL_2")
            note("st", "checkout", "refused" if out is None else "ok")
            if out is None:
                return av == 0 and err is None
            ok = out.state["LEVEL_2"] == _cs(tot, av - 1, q) and av >= 1
        elif op == 1:
            err, out = st.return_charger("LEVEL_2")
            note("st", "return", "refused" if err is not None else "ok")
            if err is not None:
                return av >= tot and out is None
            ok = out.state["LEVEL_2"] == _cs(tot, av + 1, q) and av + 1 <= tot
        elif op == 2:
            err, out = st.enqueue_for_charger("LEVEL_2")
            note("st", "enqueue")
            ok = err is None and out.state["LEVEL_2"] == _cs(tot, av, q + 1)
        elif op == 3:
            err, out = st.dequeue_for_charger("LEVEL_2")
            note("st", "dequeue", "refused" if err is not None else "ok")
            if err is not None:
                return q == 0 and out is None
            ok = out.state["LEVEL_2"] == _cs(tot, av, q - 1) and q >= 1
        else:
            err, out = st.append_chargers("LEVEL_2", n, A.ENV0)
            note("st", "append")
            ok = err is None and out.state["LEVEL_2"] == _cs(tot + n, av + n, q)
        return ok and out.state["DCFC"] == other and out.balance == st.balance and out.position == st.position and out.membership == st.membership
    b = replace(A.B0, total_stalls=tot, available_stalls=av)
    if op == 0 or op >= 2:
        out = b.checkout_stall()
        note("base", "checkout", "refused" if out is None else "ok")
        if out is None:
            return av < 1
        return out == replace(b, available_stalls=av - 1) and av - 1 >= 0
    err, out = b.return_stall()
    note("base", "return", "refused" if err is not None else "ok")
    if err is not None:
        return av + 1 > tot and out is None
    return out == replace(b, available_stalls=av + 1) and av + 1 <= tot
