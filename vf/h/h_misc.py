"""
Smaller harnesses.

C19  h_wait      real report_pickup_request: a pickup reports a waiting time in [0, cancel timeout + one step]
     h_timediff  real time_helpers.time_diff on real datetime.time values == (end - start) mod 86400 seconds
                 (validates the seconds-of-day model used wherever clocks are symbolic)
     h_load      real construct_station_load_events: one load event per station, energy == sum of that station's charge events
     h_stats     real StatsHandler.handle over several flushes: request / cancellation counters == numbers of add / cancel events
C06  h_link      real traverse_up_to: full traversal iff whole-second travel time fits, remaining time exact; a split keeps link id,
                 start and end, meets at the split cell, and requests a point strictly inside the link
     h_fold      real traverse over two links: driven ++ remaining == original (same ids, order, ends), whole-second times of the
                 fully driven links fit in the step, distance == sum of driven parts, nothing is driven after time ran out
"""
import os
from dataclasses import replace
from datetime import time as dtime

import h3 as real_h3
import immutables

from vf import boot
from vf.boot import note, feq, fle
from vf.h import arena as A
from vf.h import stubs
from vf.h.stubs import mk_time

from nrel.hive.reporting import vehicle_event_ops
from nrel.hive.reporting.vehicle_event_ops import report_pickup_request, construct_station_load_events
from nrel.hive.reporting.reporter import Report
from nrel.hive.reporting.report_type import ReportType
from nrel.hive.reporting.handler.stats_handler import StatsHandler
from nrel.hive.util import time_helpers
from nrel.hive.model.roadnetwork.linktraversal import LinkTraversal, traverse_up_to
from nrel.hive.model.roadnetwork.routetraversal import traverse
from nrel.hive.util.units import SECONDS_TO_HOURS
from nrel.hive.runner.runner_payload import RunnerPayload

stubs.install_h3_shim()
stubs.install_time_diff_shim()
stubs.install_units_int_shim()
CASE = int(os.environ.get("VF_CASE", "0"))
DAY = 86400


def h_wait(Ta: int, k: int, dt: int, dep: int, c: int) -> bool:
    """
    a request departing at `dep` is admitted at the first step clock Ta > dep, and picked up by a vehicle update of a
    step with clock T = Ta + k*dt while it is still waiting (T < dep + c)
    pre: 1 <= dt <= 3600 and 0 <= k <= 1000 and 0 <= dep and dep < Ta and Ta - dt <= dep and Ta <= 2000000000
    pre: 1 <= c <= 86400 - 3600 - 1
    post: _
    """
    T = Ta + k * dt
    if not (T < dep + c):
        return True
    sim = A.SIM0._replace(sim_time=mk_time(T), sim_timestep_duration_seconds=dt)
    req = replace(A.R0, departure_time=mk_time(dep))
    rep = report_pickup_request(A.V0, req, sim)  # ---- real code
    w = rep.report["wait_time_seconds"]
    secs = w.total_seconds()
    note("wait", "same-step" if k == 0 else "later")
    return 0 <= secs and secs <= c + dt


def h_timediff(h1: int, m1: int, s1: int, h2: int, m2: int, s2: int) -> bool:
    """
    pre: 0 <= h1 <= 23 and 0 <= m1 <= 59 and 0 <= s1 <= 59 and 0 <= h2 <= 23 and 0 <= m2 <= 59 and 0 <= s2 <= 59
    post: _
    """
    if boot.SYMBOLIC:
        # under tracing CrossHair substitutes a pure-Python datetime; time_helpers bound the C classes at import
        from crosshair.libimpl import datetimelib as dl

        time_helpers.datetime, time_helpers.date, time_helpers.timedelta = dl.datetime, dl.date, dl.timedelta
        a, b = dl.time(h1, m1, s1), dl.time(h2, m2, s2)
    else:
        a, b = dtime(h1, m1, s1), dtime(h2, m2, s2)
    d = time_helpers.time_diff(a, b)  # ---- real code
    want = ((h2 * 3600 + m2 * 60 + s2) - (h1 * 3600 + m1 * 60 + s1)) % DAY
    note("timediff", "wrap" if (h2 * 3600 + m2 * 60 + s2) < (h1 * 3600 + m1 * 60 + s1) else "plain")
    return d.days == 0 and d.seconds == want and d.microseconds == 0


class _Boxed(str):
    """what str(x) returns inside construct_station_load_events while tracing: a constant text carrying the value"""

    def __new__(cls, val):
        o = str.__new__(cls, "<boxed>")
        o.val = val
        return o


if boot.SYMBOLIC:
    # formatting is not a subject: str() of a symbolic float would realise it (enumeration)
    vehicle_event_ops.str = lambda x: _Boxed(x) if boot.is_symbolic(x) or isinstance(x, stubs.SymTime) else str(x)


def _charge_report(sid, energy):
    return Report(ReportType.VEHICLE_CHARGE_EVENT, {"station_id": sid, "energy": energy, "energy_units": "kilowatthour", "vehicle_id": "v0"})


def h_load(n: int, s1: int, s2: int, s3: int, e1: float, e2: float, e3: float, T: int, dt: int) -> bool:
    """
    pre: 0 <= n <= 3 and 0 <= s1 <= 1 and 0 <= s2 <= 1 and 0 <= s3 <= 1
    pre: 0 <= e1 <= 100 and 0 <= e2 <= 100 and 0 <= e3 <= 100 and 0 <= T <= 2000000000 and 1 <= dt <= 3600
    post: _
    """
    sids = ("s0", "s1")
    spec = ((s1, e1), (s2, e2), (s3, e3))
    reports = [Report(ReportType.VEHICLE_MOVE_EVENT, {"vehicle_id": "v0", "distance_km": 1.0})]
    want = {"s0": 0.0, "s1": 0.0}
    for i in range(3):
        if n > i:
            sid = sids[0] if spec[i][0] == 0 else sids[1]
            reports.append(_charge_report(sid, spec[i][1]))
            want[sid] = want[sid] + spec[i][1]
    sim = A.SIM0._replace(sim_time=mk_time(T), sim_timestep_duration_seconds=dt)
    out = construct_station_load_events(tuple(reports), sim)  # ---- real code
    note("load", n)
    if len(out) != 2:
        return False
    seen = set()
    for r in out:
        if r.report_type != ReportType.STATION_LOAD_EVENT:
            return False
        sid = r.report["station_id"]
        if sid in seen or sid not in want:
            return False
        seen.add(sid)
        got = r.report["energy"]
        if isinstance(got, _Boxed):
            got = got.val
        elif isinstance(got, str):
            got = float(got)
        if not feq(got, want[sid]):
            return False
    return True


class _Payload:
    def __init__(self, s):
        self.s = s


def h_stats(a1: int, c1: int, a2: int, c2: int) -> bool:
    """
    pre: 0 <= a1 <= 3 and 0 <= c1 <= 3 and 0 <= a2 <= 3 and 0 <= c2 <= 3
    post: _
    """
    h = StatsHandler()
    sim = A.SIM0
    tot_a = tot_c = 0
    for (a, c) in ((a1, c1), (a2, c2)):
        reports = []
        for i in range(3):
            if a > i:
                reports.append(Report(ReportType.ADD_REQUEST_EVENT, {"request_id": "r"}))
                tot_a += 1
            if c > i:
                reports.append(Report(ReportType.CANCEL_REQUEST_EVENT, {"request_id": "r"}))
                tot_c += 1
        reports.append(Report(ReportType.PICKUP_REQUEST_EVENT, {"request_id": "r"}))
        h.handle(reports, _Payload(sim))  # ---- real code
    note("stats", tot_a, tot_c)
    return h.stats.requests == tot_a and h.stats.cancelled_requests == tot_c


# ------------------------------------------------------------------------------------- C06 link / fold
SPEEDS = (1.0, 25.0, 40.0, 104.6)
LINE_AB = real_h3.h3_line(A.CELL_A, A.CELL_B)
MID_AB = LINE_AB[len(LINE_AB) // 2]
LINE_BC = real_h3.h3_line(A.CELL_B, A.CELL_C)


def _speed(i):
    for k in range(4):
        if i == k:
            return SPEEDS[k]
    return None


class _Net:
    """road network stand-in for traverse(): link_from_link_id returns the ground-truth speed"""

    def __init__(self, links):
        self.links = links

    def link_from_link_id(self, lid):
        return self.links.get(lid)


def h_link(dist: float, sp: int, t: int, pick: int) -> bool:
    """
    pre: 0 <= sp <= 3 and 0 <= t <= 7200 and 0 <= pick <= 2
    post: _
    """
    speed = _speed(sp)
    if speed is None or not ((0.001 <= dist) & (dist <= 50)):
        return True
    link = LinkTraversal("L1", A.CELL_A, A.CELL_B, dist, speed)
    stubs.H3_SHIM.candidates = ()
    stubs.H3_SHIM.pick = pick
    stubs.H3_SHIM.last = None
    err, res = traverse_up_to(link, t)  # ---- real code
    if err is not None or res is None:
        return False
    tt = stubs.sym_int(dist / speed * 3600)
    if tt <= t:
        note("link", "full")
        return res.traversed == link and res.remaining is None and res.remaining_time_seconds == t - tt and res.remaining_time_seconds >= 0
    note("link", "split")
    tr, rem = res.traversed, res.remaining
    if tr is None or rem is None or res.remaining_time_seconds != 0:
        return False
    if not (tr.link_id == "L1" and rem.link_id == "L1" and tr.start == link.start and rem.end == link.end and tr.end == rem.start):
        return False
    if not (tr.speed_kmph == speed and rem.speed_kmph == speed):
        return False
    if boot.SYMBOLIC:
        ratio = (t * SECONDS_TO_HOURS) * speed / dist
        if not (ratio < 1):
            return False  # the requested point would lie beyond the link's end: faster than the road allows
        last = stubs.H3_SHIM.last
        if last is None:
            # the real code short-cuts to an end cell only for a ratio within 1e-6 of an end
            return (ratio < 0.000001 and tr.end == link.start) or (ratio > 1 - 0.000001 and tr.end == link.end)
        lat0, lon0 = real_h3.h3_to_geo(link.start)
        lat1, lon1 = real_h3.h3_to_geo(link.end)
        return feq(last[0], lat0 + (lat1 - lat0) * ratio) and feq(last[1], lon0 + (lon1 - lon0) * ratio) and t > 0
    return tr.end in LINE_AB


def h_fold(d1: float, d2: float, sp1: int, sp2: int, t: int, pick: int) -> bool:
    """
    pre: 0 <= sp1 <= 3 and 0 <= sp2 <= 3 and 0 <= t <= 7200 and 0 <= pick <= 2
    post: _
    """
    s1, s2 = _speed(sp1), _speed(sp2)
    if s1 is None or s2 is None or not ((0.001 <= d1) & (d1 <= 50) & (0.001 <= d2) & (d2 <= 50)):
        return True
    l1 = LinkTraversal("L1", A.CELL_A, A.CELL_B, d1, s1)
    l2 = LinkTraversal("L2", A.CELL_B, A.CELL_C, d2, s2)
    # the route carries stale speeds: traverse() must take the ground-truth speed from the network
    route = (l1._replace(speed_kmph=77.0), l2._replace(speed_kmph=77.0))
    net = _Net({"L1": l1, "L2": l2})
    stubs.H3_SHIM.candidates = ()
    stubs.H3_SHIM.pick = pick
    stubs.H3_SHIM.last = None
    err, rt = traverse(route, t, net)  # ---- real code
    if err is not None or rt is None:
        return False
    exp, rem = rt.experienced_route, rt.remaining_route
    tt1, tt2 = stubs.sym_int(d1 / s1 * 3600), stubs.sym_int(d2 / s2 * 3600)
    note("fold", len(exp), len(rem))
    # ids in order: driven ++ remaining == original, with the split link appearing on both sides
    ids = [l.link_id for l in exp] + [l.link_id for l in rem]
    if len(exp) > 0 and len(rem) > 0 and exp[-1].link_id == rem[0].link_id:
        ids = [l.link_id for l in exp] + [l.link_id for l in rem[1:]]
        if exp[-1].end != rem[0].start:
            return False
    if ids != ["L1", "L2"]:
        return False
    chain = list(exp) + list(rem)
    if chain[0].start != A.CELL_A or chain[-1].end != A.CELL_C:
        return False
    for i in range(len(chain) - 1):
        if chain[i].end != chain[i + 1].start:
            return False
    # whole-second travel times of the fully driven links fit in the step
    split_id = rem[0].link_id if (len(rem) > 0 and len(exp) > 0 and exp[-1].link_id == rem[0].link_id) else None
    full = [l for l in exp if l.link_id != split_id]
    used = 0
    for l in full:
        used += tt1 if l.link_id == "L1" else tt2
    if used > t:
        return False
    if len(rem) == 0 and not (rt.remaining_time_seconds == t - tt1 - tt2):
        return False
    if len(rem) > 0 and len(exp) > 0 and exp[-1].link_id == rem[0].link_id and rt.remaining_time_seconds != 0:
        return False
    total = 0.0
    for l in exp:
        total = total + l.distance_km
        if l.speed_kmph != (s1 if l.link_id == "L1" else s2):
            return False
    if not feq(rt.traversal_distance_km, total):
        return False
    # once time is used up nothing more is driven: L2 untouched when L1 was not finished
    if tt1 > t and not (len(rem) == 2 and rem[1] == route[1]):
        return False
    return True


# ------------------------------------------------------------------------------------- degenerate head link, two-link moves
class _Net2(_Net):
    sim_h3_resolution = 15

    def geoid_within_geofence(self, g):
        return True


def h_fold_deg(d2: float, sp2: int, t: int, pick: int) -> bool:
    """
    a street-graph route whose first link is a zero-length stub (vehicle standing on the end node of its link):
    traverse() must drive the following link exactly as if the stub were not there
    pre: 0 <= sp2 <= 3 and 0 <= t <= 7200 and 0 <= pick <= 2
    post: _
    """
    s2 = _speed(sp2)
    if s2 is None or not ((0.001 <= d2) & (d2 <= 50)):
        return True
    stub = LinkTraversal("L1", A.CELL_B, A.CELL_B, 0.3, 40.0)
    l2 = LinkTraversal("L2", A.CELL_B, A.CELL_C, d2, s2)
    net = _Net({"L1": stub, "L2": l2})
    stubs.H3_SHIM.candidates = ()
    stubs.H3_SHIM.pick = pick
    err_a, a = traverse((stub, l2), t, net)  # ---- real code
    err_b, b = traverse((l2,), t, net)
    if err_a is not None or err_b is not None or a is None or b is None:
        return False
    note("fold-deg", len(a.experienced_route), len(a.remaining_route))
    rem_a = tuple(l for l in a.remaining_route if l.start != l.end)  # an undriven stub may stay listed: it is no road
    rem_b = tuple(l for l in b.remaining_route if l.start != l.end)
    return (a.experienced_route == b.experienced_route and rem_a == rem_b
            and a.remaining_time_seconds == b.remaining_time_seconds and feq(a.traversal_distance_km, b.traversal_distance_km))


_L1 = A.ROUTE[(0, 1)][0]._replace(link_id="L1")
_L2 = A.ROUTE[(1, 2)][0]._replace(link_id="L2")
_TT1 = int(_L1.distance_km / _L1.speed_kmph * 3600)
_TT2 = int(_L2.distance_km / _L2.speed_kmph * 3600)


def h_move2(dt: int, pick: int, e: float) -> bool:
    """
    real move() over a two-link route (the step may end on the first link, at the node, on the second link or at the end)
    pre: 1 <= dt <= 400 and 0 <= pick <= 2
    post: _
    """
    from nrel.hive.state.vehicle_state.vehicle_state_ops import move
    from nrel.hive.state.simulation_state import simulation_state_ops as sso

    if not ((1 <= e) & (e <= 50)):
        return True
    net = _Net2({"L1": _L1, "L2": _L2})
    route = (_L1, _L2)
    v = replace(A.V0, position=A.POS[0], vehicle_state=A.Repositioning.build("v0", route), energy=immutables.Map({A.E: e}))
    sim = A.SIM0._replace(road_network=net, sim_time=mk_time(1000), sim_timestep_duration_seconds=dt)
    sim = sso.add_vehicle_safe(sim, v).unwrap()
    env, rec = A.env_with_recorder()
    stubs.H3_SHIM.candidates = ()
    stubs.H3_SHIM.pick = pick
    err, sim2 = move(sim, env, "v0")  # ---- real code
    if err is not None or sim2 is None:
        return False
    v2 = sim2.vehicles["v0"]
    if isinstance(v2.vehicle_state, A.OutOfService):
        return v2.geoid == v.geoid and v2.distance_traveled_km == v.distance_traveled_km
    r2 = v2.vehicle_state.route
    d_odo = v2.distance_traveled_km - v.distance_traveled_km
    note("move2", len(r2), "node" if v2.geoid == A.CELL_B else ("end" if v2.geoid == A.CELL_C else "inside"))
    # the vehicle stands where the remaining route starts (or at the destination when nothing remains)
    if len(r2) > 0:
        if r2[0].start != v2.geoid or r2[-1].end != A.CELL_C or v2.position.link_id != r2[0].link_id and v2.geoid != A.CELL_B:
            return False
    elif v2.geoid != A.CELL_C or v2.position.link_id != "L2":
        return False
    if dt < _TT1:
        # still on the first link
        return len(r2) == 2 and r2[0].link_id == "L1" and r2[1] == _L2 and v2.position.link_id == "L1" and fle(d_odo, _L1.distance_km)
    if dt < _TT1 + _TT2:
        # first link done, somewhere on the second
        if not (len(r2) >= 1 and r2[-1].link_id == "L2" and fle(_L1.distance_km, d_odo) and fle(d_odo, _L1.distance_km + _L2.distance_km)):
            return False
        return v2.position.link_id == "L2" or (v2.geoid == A.CELL_B and dt == _TT1)
    return len(r2) == 0 and feq(d_odo, _L1.distance_km + _L2.distance_km)


def h_move_deg(dt: int, pick: int, kind: int) -> bool:
    """
    C07: a vehicle standing on the end node of its link is sent on (street-graph route = zero-length stub + next link):
    after real move() the stored route still starts at the vehicle and ends at the target; an emptied route means arrival
    pre: 1 <= dt <= 400 and 0 <= pick <= 2 and 0 <= kind <= 1
    post: _
    """
    from nrel.hive.state.vehicle_state.vehicle_state_ops import move
    from nrel.hive.state.simulation_state import simulation_state_ops as sso
    from vf.h import inv as I

    stub = _L1._replace(start=A.CELL_B, end=A.CELL_B)  # same link id and length as L1, but the vehicle is already at its end
    net = _Net2({"L1": _L1, "L2": _L2})
    route = (stub, _L2)
    st = A.Repositioning.build("v0", route) if kind == 0 else A.DispatchTrip.build("v0", "r0", route)
    v = replace(A.V0, position=A.POS[1], vehicle_state=st, energy=immutables.Map({A.E: 40.0}))
    sim = A.SIM0._replace(road_network=net, sim_time=mk_time(1000), sim_timestep_duration_seconds=dt)
    sim = sso.add_vehicle_safe(sim, v).unwrap()
    sim = sso.add_request_safe(sim, A.R0).unwrap()  # r0 waits at C, the end of L2
    env, rec = A.env_with_recorder()
    stubs.H3_SHIM.candidates = ()
    stubs.H3_SHIM.pick = pick
    err, sim2 = move(sim, env, "v0")  # ---- real code
    if err is not None or sim2 is None:
        return False
    v2 = sim2.vehicles["v0"]
    note("move-deg", "arrived" if len(v2.vehicle_state.route) == 0 else "under way")
    if not I.loc_ok_vehicle(sim2, v2):
        return False
    if len(v2.vehicle_state.route) == 0:
        return v2.geoid == A.CELL_C
    return v2.vehicle_state.route[-1].end == A.CELL_C
