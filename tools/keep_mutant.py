#!/usr/bin/env python3
"""tools/keep_mutant.py <worktree> <mutant-subdir> <seeded-id> <caught|missed> "<checks / note>"
copies patch.diff, demo.py, meta.json into /verif/seeded/<id>/ and extends meta.json with what was run and found"""
import json, os, shutil, sys
wt, sub, sid, status, note = sys.argv[1:6]
src = os.path.join(wt, "_mut", sub)
dst = os.path.join("/verif/seeded", sid)
os.makedirs(dst, exist_ok=True)
for f in ("patch.diff", "demo.py"):
    shutil.copy(os.path.join(src, f), os.path.join(dst, f))
meta = json.load(open(os.path.join(src, "meta.json")))
meta["id"] = sid
meta["confirmed"] = ("In its own scratch worktree of /repo (removed afterwards): patch applies to HEAD; demo.py exits 0 on the unmodified tree and 1 with the "
                     "patch; the pinned suite still gives 273 passed / the same 8 environment failures with the patch. Then the listed checks were run "
                     "against the patched tree (tools/mut.sh: VF_REPO=<worktree> ./check <Cxx> --tier quick).")
meta["detection"] = {"status": status, "by": note}
json.dump(meta, open(os.path.join(dst, "meta.json"), "w"), indent=1)
print("kept", sid, status)
