#!/bin/bash
# tools/mut.sh <worktree> <mutant dir> <prop> [<prop> ...]
# applies the mutant's patch in its own worktree, confirms demo (fails with / passes without) and the pinned suite,
# then runs the given checks against that worktree (VF_REPO) -- /repo itself is not touched.
WT=$1; M=$2; shift 2
cd $WT || exit 9
git checkout -q -- nrel 2>/dev/null
PYTHONPATH=$WT /venv/bin/python $M/demo.py > /tmp/mut_demo_clean.log 2>&1; c0=$?
git apply $M/patch.diff || { echo "patch does not apply"; exit 9; }
PYTHONPATH=$WT /venv/bin/python $M/demo.py > /tmp/mut_demo_mut.log 2>&1; c1=$?
t=$(PYTHONPATH=$WT /venv/bin/python -m pytest -q -p no:cacheprovider --timeout=900 2>&1 | tail -1)
echo "demo clean=$c0 mutant=$c1 ; pytest: $t"
cd ${VERIF_DIR:-/verif}
for P in "$@"; do
  s=$(date +%s)
  VF_REPO=$WT ./check $P --tier ${TIER:-quick} > /tmp/mut_$P.log 2>&1; rc=$?
  e=$(date +%s)
  echo "  check $P rc=$rc wall=$((e-s))s $(grep -c '^VIOLATION' /tmp/mut_$P.log) violation line(s); $(grep -E '^(VIOLATION|INCONCLUSIVE)' /tmp/mut_$P.log | head -2 | cut -c1-220)"
done
cd $WT && git checkout -q -- nrel
