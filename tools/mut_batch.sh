#!/bin/bash
# tools/mut_batch.sh <root of worktrees> <out file> <prop> [<prop> ...]: every mutant under <root>/<prop>/_mut/* against check <prop>
ROOT=$1; OUT=$2; shift 2
for P in "$@"; do
  for M in $ROOT/$P/_mut/*; do
    [ -f $M/patch.diff ] || continue
    echo "### $P $(basename $M)" >> $OUT
    /verif/tools/mut.sh $ROOT/$P $M $P >> $OUT 2>&1
  done
done
echo "### done" >> $OUT
