#!/usr/bin/env python3
"""prints the markdown table of /verif/seeded/*/meta.json for DESIGN.md section 10"""
import glob, json, os
rows = []
for f in sorted(glob.glob("/verif/seeded/*/meta.json")):
    m = json.load(open(f))
    rows.append((m["id"], m["property"], m["summary"].replace("|", "/"), m["needs"].replace("|", "/"), m["detection"]["status"], m["detection"]["by"].replace("|", "/")))
print("| id | breaks | change | needs | result | by / why not |")
print("|---|---|---|---|---|---|")
for r in rows:
    print("| " + " | ".join(r) + " |")
print()
print(f"{sum(1 for r in rows if r[4] == 'caught')} of {len(rows)} caught.")
