#!/bin/bash
# run every check of a tier sequentially; summary lines to stdout, full logs under /tmp/vf_logs
TIER=${1:-quick}
shift
PROPS=${@:-C01 C02 C03 C04 C05 C06 C07 C08 C09 C10 C11 C12 C13 C14 C15 C16 C17 C18 C19 C20}
mkdir -p /tmp/vf_logs
cd /verif
for P in $PROPS; do
  s=$(date +%s)
  ./check $P --tier $TIER > /tmp/vf_logs/$P.$TIER.log 2>&1
  rc=$?
  e=$(date +%s)
  echo "$P rc=$rc wall=$((e-s))s :: $(grep "^\[$P\] paths" /tmp/vf_logs/$P.$TIER.log | tail -1)"
  grep -E "^(VIOLATION|INCONCLUSIVE|KNOWN-FINDING)" /tmp/vf_logs/$P.$TIER.log | head -5
done
