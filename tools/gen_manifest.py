#!/usr/bin/env python3
"""regenerate /verif/MANIFEST.json from vf/props/registry.py"""
import json
import sys

sys.path.insert(0, "/verif")
from vf.props import registry as R

props = [json.loads(l) for l in open("/verif/properties.jsonl")]
ids = [p["id"] for p in props]
checks = []
for pid in ids:
    if pid in R.CLAIMED:
        c = R.CLAIMED[pid]
        checks.append(
            {
                "property_id": pid,
                "quick_cmd": f"./check {pid} --tier quick",
                "thorough_cmd": f"./check {pid} --tier thorough",
                "evidence_file": f"/verif/evidence/{pid}.json",
                "replay_cmd_template": "./check --replay {path}",
                "engine": "crosshair-z3",
                "level_claimed": {"category": "other", "text": c["text"], "design_ref": "DESIGN.md " + c["design"]},
                "level_note": c["note"],
                "technique": c["technique"],
            }
        )
na = [{"property_id": pid, "reason": R.NOT_APPLICABLE.get(pid, "check not built yet (work in progress)")} for pid in ids if pid not in R.CLAIMED]
m = {
    "version": 1,
    "setup_cmd": "./setup.sh",
    "hooks": {
        "guard": "NREL_HIVE_VERIF",
        "enable": "no hooks in /repo: all instrumentation is substitution of inputs / module attributes inside the harness process",
        "baseline_off_cmd": "cd /repo && /venv/bin/python -m pytest -ra -q -p no:cacheprovider --timeout=900 --continue-on-collection-errors",
        "source_commits": [],
        "add_only": True,
    },
    "engines": [
        {
            "name": "crosshair-z3",
            "path": "/verif/vf",
            "serves_properties": sorted(R.CLAIMED),
            "kind_free_text": "symbolic execution of hive's real Python functions (CrossHair 0.0.110, z3 5.1.0) driven through its API by vf/driver.py + vf/worker.py; "
                              "direct z3 encodings generated from the functions' AST (vf/py2smt.py) for leaf arithmetic kernels; counterexamples replayed on the real code by vf/replay.py",
        }
    ],
    "checks": checks,
    "not_applicable": na,
    "notes": "Exit codes: 0 held on everything explored; 1 VIOLATION (replayed); 2 inconclusive/harness error. Known findings: /verif/known_findings.json.",
}
json.dump(m, open("/verif/MANIFEST.json", "w"), indent=1)
print("claimed", sorted(R.CLAIMED), "n/a", len(na))
