#!/bin/bash
# Idempotent offline setup: overlay venv on top of /venv with crosshair-tool from the wheelhouse.
set -e
V=/verif/.venv
if [ -x "$V/bin/python" ] && "$V/bin/python" -c "import crosshair, z3, nrel.hive" >/dev/null 2>&1; then
  exit 0
fi
exec 9>/tmp/.verif_setup.lock
flock 9
if [ -x "$V/bin/python" ] && "$V/bin/python" -c "import crosshair, z3, nrel.hive" >/dev/null 2>&1; then
  exit 0
fi
rm -rf "$V"
/venv/bin/python -m venv "$V"
SP=$("$V/bin/python" -c "import site;print(site.getsitepackages()[0])")
echo "import site; site.addsitedir('/venv/lib/python3.12/site-packages')" > "$SP/_hive_overlay.pth"
PIP_NO_INDEX=1 "$V/bin/pip" install -q --no-index --find-links /opt/veriftools/wheels crosshair-tool
"$V/bin/python" -c "import crosshair, z3, nrel.hive" >/dev/null 2>&1
